// c17worker executes simulated runs for property C17.
//
//	c17worker -base B -from I -to J -profile nofault|fault|mixed   (JSON lines on stdout)
//	c17worker -replay case.json
//	c17worker -gen SEED -profile P                                 (prints the case)
package main

import (
	"bufio"
	"encoding/json"
	"flag"
	"fmt"
	"os"

	"github.com/hashicorp/hcl/v2/zzsim"
)

var out = bufio.NewWriterSize(os.Stdout, 1<<16)

func emit(v any) {
	b, err := json.Marshal(v)
	if err != nil {
		panic(err)
	}
	out.Write(b)
	out.WriteByte('\n')
	out.Flush()
}

type line struct {
	Ev      string   `json:"ev"`
	I       uint64   `json:"i"`
	Seed    uint64   `json:"seed"`
	Profile string   `json:"profile,omitempty"`
	Res     *Result  `json:"res,omitempty"`
	Case    *Case    `json:"case,omitempty"`
	Verdict string   `json:"verdict,omitempty"`
	Detail  string   `json:"detail,omitempty"`
	Stats   *zzsim.Stats `json:"stats,omitempty"`
	PB      int          `json:"pb,omitempty"`
}

func profileFor(p string, i uint64) string {
	if p == "mixed" {
		if i%2 == 0 {
			return "nofault"
		}
		return "fault"
	}
	return p
}

func slim(r *Result, keep bool) {
	if keep {
		return
	}
	r.Stats.Schedule = nil
	if len(r.Stats.PreemptShapes) > 48 {
		r.Stats.PreemptShapes = r.Stats.PreemptShapes[:48]
	}
}

func main() {
	base := flag.Uint64("base", 1, "batch seed")
	from := flag.Uint64("from", 0, "first run index")
	to := flag.Uint64("to", 1, "one past last run index")
	profile := flag.String("profile", "mixed", "nofault|fault|mixed")
	replay := flag.String("replay", "", "case file to execute")
	gen := flag.Uint64("gen", 0, "print the case generated for this run seed")
	full := flag.Bool("full", false, "keep schedules in results")
	deep := flag.Bool("deep", false, "deeper bounds (thorough tier): larger expressions, more files, tasks and ops")
	pb1 := flag.Int("pb1", 0, "bounded systematic search: run each generated case under every single-preemption schedule (at most this many runs per case)")
	pb2 := flag.Int("pb2", 0, "bounded systematic search, two preemptions placed at boosted decision points (at most this many runs per case)")
	noRetain := flag.Bool("noretain", false, "force every case into the mode in which pools retain nothing")
	emitCase := flag.Bool("emitcase", false, "attach the generated case to every result")
	flag.Parse()

	var inflight *Case
	zzsim.DieHook = func(verdict, detail string) {
		st := zzsim.Snapshot()
		if InReference {
			detail += " — while the task's program was running ALONE (sequential reference): an evaluation of this configuration blocks even without any concurrency"
		}
		emit(line{Ev: "die", Verdict: verdict, Detail: detail, Case: inflight, Stats: &st})
	}

	Progress = func(n int) { emit(line{Ev: "progress", PB: n}) }
	if *gen != 0 {
		emit(genCase(*gen, profileFor(*profile, 0), *deep, false))
		return
	}
	if *replay != "" {
		b, err := os.ReadFile(*replay)
		if err != nil {
			fmt.Fprintln(os.Stderr, err)
			os.Exit(2)
		}
		c := &Case{}
		if err := json.Unmarshal(b, c); err != nil {
			fmt.Fprintln(os.Stderr, err)
			os.Exit(2)
		}
		inflight = c
		emit(line{Ev: "start", Seed: c.Seed})
		r := runCase(c)
		emit(line{Ev: "end", Seed: c.Seed, Res: r})
		return
	}
	for i := *from; i < *to; i++ {
		seed := zzsim.Mix(*base, i) | 1
		p := profileFor(*profile, i)
		c := genCase(seed, p, *deep, i%64 == 0)
		if *noRetain {
			c.PoolsRetain = false
		}
		inflight = c
		emit(line{Ev: "start", I: i, Seed: seed, Profile: p})
		if *pb1 > 0 {
			small(c)
			n, fr := runPB1(c, *pb1)
			if fr != nil {
				c.Sched = SchedM{Strategy: "replay", Seed: c.Sched.Seed, Replay: fr.Stats.Schedule}
				emit(line{Ev: "end", I: i, Seed: seed, Profile: p, Res: fr, Case: c, PB: n})
				os.Exit(3)
			}
			emit(line{Ev: "pb1", I: i, Seed: seed, Profile: p, PB: n})
			continue
		}
		if *pb2 > 0 {
			small(c)
			n, fr := runPB2(c, *pb2)
			if fr != nil {
				c.Sched = SchedM{Strategy: "replay", Seed: c.Sched.Seed, Replay: fr.Stats.Schedule}
				emit(line{Ev: "end", I: i, Seed: seed, Profile: p, Res: fr, Case: c, PB: n})
				os.Exit(3)
			}
			emit(line{Ev: "pb2", I: i, Seed: seed, Profile: p, PB: n})
			continue
		}
		r := runCase(c)
		bad := r.Verdict != "ok"
		slim(r, bad || *full)
		l := line{Ev: "end", I: i, Seed: seed, Profile: p, Res: r}
		if bad || *emitCase {
			l.Case = c
		}
		emit(l)
		if bad {
			os.Exit(3)
		}
	}
}

// small cuts a generated case down to what a bounded systematic search can
// cover: two tasks, one op each, and most of the time the very same op.
func small(c *Case) {
	if len(c.Tasks) > 2 {
		c.Tasks = c.Tasks[:2]
	}
	for t := range c.Tasks {
		c.Tasks[t].Ops = c.Tasks[t].Ops[:1]
	}
	if c.Seed%4 != 0 {
		c.Tasks[1].Ops[0] = c.Tasks[0].Ops[0]
	}
	c.Faults.Abort, c.Faults.Goexit = 0, 0
	if c.Sched.Victim >= len(c.Tasks) {
		c.Sched.Victim = 0
	}
}
