package main

import (
	"fmt"
	"strings"

	"github.com/hashicorp/hcl/v2/zzsim"
)

// rnd is the only source of generated choices: splitmix64 seeded from the run
// seed.
type rnd struct{ s uint64 }

func (r *rnd) u64() uint64 {
	r.s += 0x9e3779b97f4a7c15
	z := r.s
	z = (z ^ (z >> 30)) * 0xbf58476d1ce4e5b9
	z = (z ^ (z >> 27)) * 0x94d049bb133111eb
	return z ^ (z >> 31)
}
func (r *rnd) n(n int) int {
	if n <= 0 {
		return 0
	}
	return int(r.u64() % uint64(n))
}
func (r *rnd) chance(num, den int) bool { return r.n(den) < num }
func (r *rnd) pick(ss ...string) string { return ss[r.n(len(ss))] }

const prelude = `
function "uf_vs" {
  params = [l]
  result = l[*].v
}
function "uf_wrap" {
  params = [s]
  result = "<${s}>"
}
function "uf_ws" {
  params = [l, i]
  result = l[*].ys[i].w
}
function "uf_deep" {
  params = [l]
  result = flatten(l[*].ys[*].w)
}
function "uf_tags" {
  params = [o]
  result = o.tags[*]
}
function "uf_all" {
  params = []
  result = c_xs[*].v
}
function "uf_alln" {
  params = []
  result = [for y in flatten(c_xs[*].ys[*].w) : upper(y)]
}
function "uf_var" {
  params         = [a]
  variadic_param = rest
  result         = concat(a[*].v, rest[*])
}
function "uf_cb" {
  params = [l]
  result = [for s in l[*].v : cb_str(s)]
}
`

// ---- expression generator (native syntax), lightly typed so that most
// expressions evaluate successfully and reach the splat machinery ----

type egen struct {
	r  *rnd
	it string // iterator variable in scope ("" if none); it.value is an outer object
	in string // inner iterator in scope; in.value is an inner object
}

func (g *egen) outerList(d int) string {
	r := g.r
	if d <= 0 {
		return r.pick("xs", "xs", "c_xs", "mxs", "uxs")
	}
	switch r.n(12) {
	case 0, 1, 2, 3:
		return "xs"
	case 4:
		return "c_xs"
	case 5:
		return "mxs"
	case 6:
		return "uxs"
	case 7:
		return fmt.Sprintf("[for x in %s : x]", g.outerList(d-1))
	case 8:
		return fmt.Sprintf("[for x in %s : x if %s]", g.outerList(d-1), "x.n >= "+g.num(d-1))
	case 9:
		return "obj[*]"
	case 10:
		return fmt.Sprintf("try(%s, c_xs)", g.outerList(d-1))
	default:
		return "txs"
	}
}

func (g *egen) innerList(d int) string {
	r := g.r
	if g.it != "" && r.chance(1, 2) {
		return g.it + r.pick(".value.ys", ".value.ys", ".value.ys[*]", ".value[*].ys[0]")
	}
	switch r.n(5) {
	case 0:
		return fmt.Sprintf("%s[%s].ys", g.outerList(d-1), g.idx(d-1))
	case 1:
		return "obj.ys"
	case 2:
		return fmt.Sprintf("flatten(%s[*].ys)", g.outerList(d-1))
	case 3:
		return "xs[0].ys"
	default:
		return fmt.Sprintf("%s[*].ys[%s]", g.outerList(d-1), g.idx(d-1))
	}
}

func (g *egen) idx(d int) string {
	r := g.r
	if d <= 0 {
		return r.pick("0", "0", "1", "cb_num(0)")
	}
	switch r.n(10) {
	case 0, 1:
		return "0"
	case 2:
		return "1"
	case 3, 4:
		return "cb_num(0)"
	case 5:
		return "cb_num(1)"
	case 6:
		return "length(xs[*].v) - length(xs[*].v)"
	case 7:
		return "n0 - n0"
	case 8:
		return fmt.Sprintf("min(%s, 1)", g.num(d-1))
	default:
		return fmt.Sprintf("cb_num(length(%s[*].n) > 99 ? 1 : 0)", g.outerList(d-1))
	}
}

func (g *egen) strList(d int) string {
	r := g.r
	if d <= 0 {
		return r.pick("xs[*].v", "xs.*.v", "strs", "c_xs[*].v")
	}
	switch r.n(23) {
	case 22:
		return fmt.Sprintf("convert(%s, %s)", g.strList(d-1), r.pick("list(string)", "list(any)", "any"))
	case 0, 1, 2:
		return g.outerList(d-1) + "[*].v"
	case 3:
		return g.outerList(d-1) + ".*.v"
	case 4:
		return g.innerList(d-1) + "[*].w"
	case 5, 6, 7:
		return fmt.Sprintf("%s[*].ys[%s].w", g.outerList(d-1), g.idx(d-1))
	case 8:
		return fmt.Sprintf("%s[*].tags[%s]", g.outerList(d-1), g.idx(d-1))
	case 9:
		return r.pick("strs", "sstrs", "strs[*]", "sstrs[*]")
	case 10:
		return fmt.Sprintf("[for x in %s : x.v]", g.outerList(d-1))
	case 11:
		return fmt.Sprintf("[%s, %s]", g.str(d-1), g.str(d-1))
	case 12:
		return fmt.Sprintf("uf_vs(%s)", g.outerList(d-1))
	case 13:
		return fmt.Sprintf("uf_ws(%s, %s)", g.outerList(d-1), g.idx(d-1))
	case 14:
		return fmt.Sprintf("flatten(%s[*].ys[*].w)", g.outerList(d-1))
	case 15:
		return fmt.Sprintf("uf_deep(%s)", g.outerList(d-1))
	case 16:
		return r.pick("nul[*]", "obj.tags[*]", "uf_tags(obj)", "s0[*]", "unk[*]")
	case 17:
		return fmt.Sprintf("concat(%s, %s)", g.strList(d-1), g.strList(d-1))
	case 18:
		return fmt.Sprintf("try(%s, [])", g.strList(d-1))
	case 19:
		return r.pick(fmt.Sprintf("uf_cb(%s)", g.outerList(d-1)), "uf_all()", "uf_alln()", fmt.Sprintf("uf_var(%s, %s)", g.outerList(d-1), g.str(d-1)))
	case 20:
		return fmt.Sprintf("%s[*].ys[%s][%s]", g.outerList(d-1), g.idx(d-1), `"w"`)
	default:
		return fmt.Sprintf("[for s in %s : cb_str(s)]", g.strList(d-1))
	}
}

func (g *egen) numList(d int) string {
	if g.r.chance(1, 3) {
		return g.innerList(d-1) + "[*].k"
	}
	return g.outerList(d-1) + "[*].n"
}

func (g *egen) str(d int) string {
	r := g.r
	if d <= 0 {
		if g.it != "" && r.chance(1, 2) {
			return g.it + ".value.v"
		}
		if g.in != "" && r.chance(1, 2) {
			return g.in + ".value.w"
		}
		return r.pick(`"lit"`, "s0", "c_s0", "mk", "obj.v")
	}
	switch r.n(19) {
	case 18:
		return fmt.Sprintf("lazy(%s)", g.str(d-1))
	case 0:
		return `"lit"`
	case 1:
		return r.pick("s0", "c_s0", "mk", "obj.v")
	case 2, 3:
		return fmt.Sprintf("%s[%s]", g.strList(d-1), g.idx(d-1))
	case 4:
		return fmt.Sprintf(`join("-", %s)`, g.strList(d-1))
	case 5:
		// calls with an expanding final argument: one, two or many elements
		// behind the "..." (the expanded list can fit the spare capacity of
		// the call's own argument slice or not)
		switch r.n(4) {
		case 0:
			return fmt.Sprintf(`join("-", [%s]...)`, g.strList(d-1))
		case 1:
			return fmt.Sprintf(`format("%%s", [%s]...)`, g.str(d-1))
		case 2:
			return fmt.Sprintf(`format("%%s/%%s", %s, [%s]...)`, g.str(d-1), g.str(d-1))
		}
		return fmt.Sprintf(`join("+", %s, [[%s], [%s]]...)`, g.strList(d-1), g.str(d-1), g.str(d-1))
	case 6:
		return fmt.Sprintf("upper(%s)", g.str(d-1))
	case 7:
		switch r.n(3) {
		case 0:
			// literal text is rendered before the callback runs
			return fmt.Sprintf(`"pre-${cb_str(%s)}-post"`, g.str(d-1))
		case 1:
			return fmt.Sprintf(`"a${%s}b${cb_num(%s)}c"`, g.str(d-1), g.num(d-1))
		}
		return fmt.Sprintf(`"${%s}:${%s}"`, g.str(d-1), g.num(d-1))
	case 8:
		return fmt.Sprintf("(%s ? %s : %s)", g.boolean(d-1), g.str(d-1), g.str(d-1))
	case 9, 10:
		return fmt.Sprintf("cb_str(%s)", g.str(d-1))
	case 11:
		return fmt.Sprintf("uf_wrap(%s)", g.str(d-1))
	case 12:
		return fmt.Sprintf(`try(%s, "fb")`, g.str(d-1))
	case 13:
		return fmt.Sprintf(`"%%{ for x in %s }${x},%%{ endfor }"`, g.strList(d-1))
	case 14:
		return fmt.Sprintf("xs[%s].v", g.idx(d-1))
	case 15:
		return fmt.Sprintf("cb_re(%s)", g.str(d-1))
	case 16:
		if g.it != "" {
			return g.it + ".value.v"
		}
		return "s0"
	default:
		if g.in != "" {
			return g.in + ".value.w"
		}
		return fmt.Sprintf(`format("%%s/%%s", %s, %s)`, g.str(d-1), g.str(d-1))
	}
}

func (g *egen) num(d int) string {
	r := g.r
	if d <= 0 {
		return r.pick("0", "1", "2", "n0", "c_n0")
	}
	switch r.n(9) {
	case 0:
		return r.pick("0", "1", "2", "3")
	case 1:
		return r.pick("n0", "c_n0", "obj.n")
	case 2, 3:
		return fmt.Sprintf("length(%s)", g.strList(d-1))
	case 4:
		return fmt.Sprintf("(%s + %s)", g.num(d-1), g.num(d-1))
	case 5:
		return fmt.Sprintf("cb_num(%s)", g.num(d-1))
	case 6:
		switch r.n(3) {
		case 0:
			return fmt.Sprintf("max([%s]...)", g.num(d-1))
		case 1:
			return fmt.Sprintf("min(%s, [%s]...)", g.num(d-1), g.num(d-1))
		}
		return fmt.Sprintf("max(concat([0], %s)...)", g.numList(d-1))
	case 7:
		return fmt.Sprintf("length(%s[*])", g.outerList(d-1))
	default:
		return fmt.Sprintf("(%s ? 0 : 1)", g.boolean(d-1))
	}
}

func (g *egen) boolean(d int) string {
	r := g.r
	if d <= 0 {
		return r.pick("true", "false", "b0")
	}
	switch r.n(7) {
	case 0:
		return r.pick("true", "b0")
	case 1:
		return fmt.Sprintf("(%s > %s)", g.num(d-1), g.num(d-1))
	case 2:
		return fmt.Sprintf("can(%s)", g.anyExpr(d-1))
	case 3:
		return fmt.Sprintf("contains(%s, %s)", g.strList(d-1), g.str(d-1))
	case 4:
		return fmt.Sprintf("(%s == %s)", g.str(d-1), g.str(d-1))
	case 5:
		return fmt.Sprintf("!%s", g.boolean(d-1))
	default:
		return "alltrue([for x in xs : x.n >= 0])"
	}
}

func (g *egen) anyExpr(d int) string {
	r := g.r
	switch r.n(16) {
	case 15:
		return fmt.Sprintf("lazy(%s)", g.anyExpr(d-1))
	case 14:
		return fmt.Sprintf("convert(%s, %s)", g.outerList(d-1), r.pick("list(object({ v = string, n = number }))", "list(any)", "set(object({ v = string }))", "map(string)"))
	case 0, 1, 2, 3:
		return g.strList(d)
	case 4, 5:
		return g.str(d)
	case 6:
		return g.num(d)
	case 7:
		return g.boolean(d)
	case 8:
		return fmt.Sprintf("{ a = %s, b = %s }", g.anyExpr(d-1), g.anyExpr(d-1))
	case 9:
		return fmt.Sprintf("[%s, %s]", g.anyExpr(d-1), g.anyExpr(d-1))
	case 10:
		return fmt.Sprintf("{for x in %s : x.v => x.n...}", g.outerList(d-1))
	case 11:
		return fmt.Sprintf("%s[*].ys[*].w", g.outerList(d-1))
	case 12:
		return g.numList(d)
	default:
		return fmt.Sprintf("%s[*]", g.outerList(d-1))
	}
}

// ---- bodies ----

func genBody(r *rnd, prefix string, depth int) BodyM {
	g := &egen{r: r}
	var b BodyM
	na := 1 + r.n(4)
	if r.chance(1, 4) {
		na += 2 + r.n(3)
	}
	for i := 0; i < na; i++ {
		a := AttrM{Name: fmt.Sprintf("%sa%d", prefix, i), Expr: g.anyExpr(depth)}
		switch r.n(8) {
		case 0:
			// a list written element by element (a JSON array in JSON syntax)
			for k := 2 + r.n(3); k > 0; k-- {
				a.JList = append(a.JList, g.anyExpr(depth-1))
			}
			a.Expr = "[" + strings.Join(a.JList, ", ") + "]"
		case 1:
			var parts []string
			for k := 1 + r.n(3); k > 0; k-- {
				key := fmt.Sprintf("k%d", k)
				val := g.anyExpr(depth - 1)
				a.JKeys = append(a.JKeys, key)
				a.JVals = append(a.JVals, val)
				parts = append(parts, key+" = "+val)
			}
			a.Expr = "{ " + strings.Join(parts, ", ") + " }"
		}
		b.Attrs = append(b.Attrs, a)
	}
	nb := r.n(4)
	for i := 0; i < nb; i++ {
		b.Blocks = append(b.Blocks, genBlock(r, depth, i))
	}
	return b
}

func genB0Body(r *rnd, g *egen, depth int) BodyM {
	var b BodyM
	if r.chance(3, 4) {
		b.Attrs = append(b.Attrs, AttrM{Name: "p", Expr: g.anyExpr(depth)})
	}
	if r.chance(1, 2) {
		b.Attrs = append(b.Attrs, AttrM{Name: "q", Expr: g.str(depth)})
	}
	if r.chance(1, 2) {
		// nested block, static or dynamic
		if r.chance(2, 5) {
			b.Blocks = append(b.Blocks, BlockM{Type: "inner", Body: BodyM{Attrs: []AttrM{{Name: "r", Expr: g.anyExpr(depth - 1)}}}})
		} else {
			ig := &egen{r: r, it: g.it, in: "inner"}
			itn := ""
			if r.chance(1, 3) {
				itn = "in2"
				ig.in = "in2"
			}
			fe := g.innerList(depth - 1)
			b.Blocks = append(b.Blocks, BlockM{Type: "inner", Dyn: &DynM{ForEach: fe, Iterator: itn},
				Body: BodyM{Attrs: []AttrM{{Name: "r", Expr: ig.str(depth - 1)}}}})
		}
	}
	return b
}

func genBlock(r *rnd, depth int, ord int) BlockM {
	g := &egen{r: r}
	dyn := r.chance(1, 2)
	var d *DynM
	if dyn {
		d = &DynM{}
		if r.chance(3, 5) {
			d.ForEach = g.outerList(depth - 1)
		} else {
			// over shared variables only: these also work in the shared Expand
			// results, whose for_each sees the Expand-time context
			d.ForEach = r.pick("c_xs", "c_xs[*]", "c_xs[*]", "[for x in c_xs : x]", "c_xs[*].ys[0]", "try(c_xs[*], [])", "c_xs[*].ys[cb_num(0)]")
		}
		g.it = ""
		if r.chance(1, 3) {
			d.Iterator = "it"
		}
	}
	switch r.n(5) {
	case 0, 1:
		bl := BlockM{Type: "b0", Dyn: d}
		if d != nil {
			g.it = "b0"
			if d.Iterator != "" {
				g.it = d.Iterator
			}
		}
		bl.Body = genB0Body(r, g, depth)
		return bl
	case 2:
		bl := BlockM{Type: "b1", Dyn: d}
		if d != nil {
			g.it = "b1"
			if d.Iterator != "" {
				g.it = d.Iterator
			}
			d.Labels = []string{fmt.Sprintf(`"l${%s.key}"`, g.it)}
			if r.chance(1, 3) {
				d.Labels = []string{g.it + ".value.v"}
			}
		} else {
			bl.Labels = []string{fmt.Sprintf("lab%d", ord)}
		}
		bl.Body = BodyM{Attrs: []AttrM{{Name: "p", Expr: g.anyExpr(depth)}}}
		return bl
	case 3:
		// typed blocks, decoded with BlockListSpec / BlockSetSpec / BlockMapSpec
		ty := r.pick("tl", "ts", "tm")
		bl := BlockM{Type: ty, Dyn: d}
		if d != nil {
			g.it = ty
			if d.Iterator != "" {
				g.it = d.Iterator
			}
			if ty == "tm" {
				d.Labels = []string{fmt.Sprintf(`"m${%s.key}"`, g.it)}
			}
		} else if ty == "tm" {
			bl.Labels = []string{fmt.Sprintf("m%d", ord)}
		}
		bl.Body = BodyM{Attrs: []AttrM{{Name: "s", Expr: g.str(depth)}}}
		return bl
	default:
		// kv: arbitrary attributes, decoded with BlockAttrsSpec; never dynamic
		bl := BlockM{Type: "kv"}
		g.it = ""
		n := 1 + r.n(3)
		for i := 0; i < n; i++ {
			bl.Body.Attrs = append(bl.Body.Attrs, AttrM{Name: fmt.Sprintf("k%d", i), Expr: g.str(depth)})
		}
		return bl
	}
}

// ---- values ----

func sv(s string) V  { return V{K: "str", S: s} }
func nv(n int64) V   { return V{K: "num", N: n} }
func objV(keys []string, vals ...V) V {
	return V{K: "obj", Keys: keys, L: vals}
}

func innerObj(tag string, i, j int) V {
	return objV([]string{"w", "k"}, sv(fmt.Sprintf("%s-w%d.%d", tag, i, j)), nv(int64(100*i+j)))
}

func outerObj(r *rnd, tag string, base int64, i int) V {
	ny := 2 + r.n(2)
	ys := V{K: "list"}
	for j := 0; j < ny; j++ {
		ys.L = append(ys.L, innerObj(tag, i, j))
	}
	tags := V{K: "list", L: []V{sv(fmt.Sprintf("%s-t%d.0", tag, i)), sv(fmt.Sprintf("%s-t%d.1", tag, i))}}
	return objV([]string{"v", "n", "ys", "tags"}, sv(fmt.Sprintf("%s-v%d", tag, i)), nv(base+int64(i)), ys, tags)
}

const outerType = "object({v=string,n=number,ys=list(object({w=string,k=number})),tags=list(string)})"

func outerListV(r *rnd, tag string, base int64, kind string) V {
	n := 2 + r.n(4)
	l := V{K: kind}
	for i := 0; i < n; i++ {
		l.L = append(l.L, outerObj(r, tag, base, i))
	}
	return l
}

// genVars draws one task's own variables.  Every string embeds the task tag
// and every number is 1000*task+i, so a value leaking from another task can
// never coincide with the right answer.
func genVars(r *rnd, task int) []VarM {
	tag := fmt.Sprintf("T%d", task)
	base := int64(1000 * (task + 1))
	var vs []VarM
	add := func(n string, v V) { vs = append(vs, VarM{Name: n, Val: v}) }

	xs := outerListV(r, tag, base, r.pick("list", "list", "list", "tuple"))
	switch r.n(16) {
	case 0:
		xs = V{K: "unk", T: "list(" + outerType + ")"}
	case 1:
		xs = V{K: "unk", T: "list(" + outerType + ")", Lo: 1, Hi: 3}
	case 2:
		xs = V{K: "null", T: "list(" + outerType + ")"}
	case 3:
		xs = V{K: "dyn"}
	case 4:
		xs.K = "set"
	case 5:
		xs.L[r.n(len(xs.L))] = V{K: "unk", T: outerType}
	case 6:
		xs = V{K: "list", T: outerType}
	}
	add("xs", xs)
	add("txs", outerListV(r, tag+"x", base+500, "tuple"))
	mxs := outerListV(r, tag+"m", base+600, "list")
	mxs.Mark = "secret" + tag
	if r.chance(1, 3) {
		mxs.L[0].L[0].Mark = "deep" + tag
	}
	add("mxs", mxs)
	uxs := V{K: "unk", T: "list(" + outerType + ")"}
	switch r.n(5) {
	case 0:
		uxs = V{K: "unknn", T: "list(" + outerType + ")"}
	case 1:
		uxs = V{K: "unk", T: "tuple([" + outerType + "," + outerType + "])"}
	case 2:
		uxs = V{K: "unk", T: "set(" + outerType + ")", Lo: 0, Hi: 2}
	case 3:
		uxs = outerListV(r, tag+"u", base+700, "list")
		uxs.L[0].L[0] = V{K: "unk", T: "string"}
	}
	add("uxs", uxs)
	obj := outerObj(r, tag+"o", base+800, 0)
	switch r.n(8) {
	case 0:
		obj = V{K: "unk", T: outerType}
	case 1:
		obj = V{K: "null", T: outerType}
	case 2:
		obj.Mark = "objmark" + tag
	case 3:
		obj = V{K: "unknn", T: outerType}
	}
	add("obj", obj)
	add("strs", V{K: "list", L: []V{sv(tag + "-s0"), sv(tag + "-s1"), sv(tag + "-s2")}})
	add("sstrs", V{K: "set", L: []V{sv(tag + "-z0"), sv(tag + "-z1")}})
	add("s0", sv(tag+"-str"))
	add("n0", nv(base+7))
	add("b0", V{K: "bool", B: task%2 == 0})
	add("mk", V{K: "str", S: tag + "-marked", Mark: "m" + tag})
	add("nul", V{K: "null", T: r.pick("string", "list(string)", outerType)})
	add("unk", V{K: "unk", T: r.pick("string", "list(string)", "number", "set(string)")})
	// stand-ins for dynamic block iterators, so raw content expressions
	// evaluate meaningfully outside an expansion
	el := outerObj(r, tag+"i", base+900, 0)
	for _, n := range []string{"it", "b0", "b1", "tl", "ts", "tm"} {
		add(n, objV([]string{"key", "value"}, nv(0), el))
	}
	ie := innerObj(tag+"j", 9, 9)
	for _, n := range []string{"inner", "in2"} {
		add(n, objV([]string{"key", "value"}, nv(0), ie))
	}
	return vs
}

func genShared(r *rnd) []VarM {
	return []VarM{
		{Name: "c_xs", Val: outerListV(r, "C", 90000, r.pick("list", "tuple"))},
		{Name: "c_s0", Val: sv("C-str")},
		{Name: "c_n0", Val: nv(90007)},
	}
}

var opKinds = []string{
	"value", "value", "value", "value", "variables",
	"content", "partial", "just_attrs",
	"decode", "decode", "partial_decode",
	"expand_decode", "expand_decode", "shared_expand_decode", "shared_expand_decode",
	"dec_vars", "implied_type", "expand_vars",
	"gohcl", "gohcl_expr", "static", "static", "merge_content", "spec_misc", "gen_decode", "gen_decode",
	"at_pos", "type_defaults",
}

// genCase generates a complete case from a run seed.  profile selects the
// fault configuration: "nofault" or "fault".
// coldKinds are the ops that need no catalogue of the configuration: a "cold"
// case runs its concurrent phase before anything else has used the library in
// this process (see runCase), so that first uses of process-global state
// (package-level caches and lazily initialised tables) happen concurrently.
var coldKinds = []string{"gen_decode", "decode", "decode", "partial_decode", "expand_decode", "shared_expand_decode", "gohcl", "gohcl", "dec_vars", "expand_vars", "spec_misc", "merge_content", "implied_type", "at_pos", "type_defaults"}

func genCase(seed uint64, profile string, deep, cold bool) *Case {
	r := &rnd{s: zzsim.Mix(seed, 1)}
	c := &Case{Property: "C17", Seed: seed, Prelude: prelude}
	depth := 2 + r.n(2)
	nf := 1 + r.n(3)
	if deep {
		// thorough tier: larger expressions, more files
		depth = 3 + r.n(2)
		nf = 2 + r.n(3)
	}
	for i := 0; i < nf; i++ {
		syn := "native"
		if r.chance(2, 5) {
			syn = "json"
		}
		fm := FileM{Syntax: syn, Body: genBody(r, fmt.Sprintf("f%d", i), depth)}
		if syn == "json" && r.chance(1, 2) {
			fm.JSONArray = 1 + r.n(2)
		}
		c.Files = append(c.Files, fm)
	}
	c.SpecSeed = r.u64()
	c.Shared = genShared(r)
	nt := 2 + r.n(3)
	if r.chance(1, 8) || (deep && r.chance(1, 2)) {
		nt = 5 + r.n(3)
	}
	for t := 0; t < nt; t++ {
		tm := TaskM{CtxMode: r.pick("own", "child", "child", "grandchild"), Vars: genVars(r, t)}
		nops := 1 + r.n(4)
		if deep {
			nops = 2 + r.n(6)
		}
		for o := 0; o < nops; o++ {
			op := genOp(r)
			if cold {
				op.Kind = coldKinds[r.n(len(coldKinds))]
			}
			tm.Ops = append(tm.Ops, op)
		}
		c.Tasks = append(c.Tasks, tm)
	}
	c.Pretouch = r.chance(1, 2)
	if !cold && r.chance(1, 6) {
		// focus shape: a dynamic block over shared data whose content holds a
		// nested dynamic block with a splat in its for_each, and every task
		// decoding the bodies of the blocks it generates
		inner := BlockM{Type: "inner", Dyn: &DynM{ForEach: r.pick("b0.value.ys[*]", "flatten(c_xs[*].ys)", "c_xs[*].ys[0]", "b0.value[*].ys[0]", "[for y in b0.value.ys[*] : y]")},
			Body: BodyM{Attrs: []AttrM{{Name: "r", Expr: r.pick("inner.value.w", `"${b0.value.v}/${inner.value.w}"`, "upper(inner.value.w)")}}}}
		outer := BlockM{Type: "b0", Dyn: &DynM{ForEach: r.pick("c_xs", "c_xs[*]", "[for x in c_xs : x]")},
			Body: BodyM{Attrs: []AttrM{{Name: "p", Expr: r.pick("b0.value.v", "b0.value.ys[*].w", "c_xs[*].v")}}, Blocks: []BlockM{inner}}}
		f := r.n(len(c.Files))
		c.Files[f].Body.Blocks = append(c.Files[f].Body.Blocks, outer)
		c.Pretouch = true
		c.Tasks[0].Ops[0].Kind = "gen_decode"
		c.Tasks[0].Ops[0].Target |= 1 << 12
	} else if c.Pretouch && !cold && r.chance(1, 4) {
		// shared generated block bodies exist only in pretouch cases
		c.Tasks[0].Ops[0].Kind = "gen_decode"
	}
	// tasks overlap on the very same expression or body in most runs
	if r.chance(3, 4) && nt >= 2 {
		first := c.Tasks[0].Ops[0]
		for t := 1; t < nt; t++ {
			if r.chance(2, 3) {
				c.Tasks[t].Ops[r.n(len(c.Tasks[t].Ops))] = first
			}
		}
	}
	c.ExpandCheck = r.chance(1, 3)
	c.PoolsRetain = r.chance(2, 5)
	if cold {
		c.ConcFirst, c.Pretouch = true, false
	}
	c.MapSalt = r.u64() | 1
	c.Faults.Seed = r.u64()
	if profile == "fault" {
		f := &c.Faults
		if r.chance(1, 2) {
			f.Error = 16 << r.n(5)
		}
		if r.chance(1, 2) {
			f.Panic = 16 << r.n(5)
		}
		if r.chance(1, 2) {
			f.Slow = 32 << r.n(5)
		}
		if r.chance(1, 2) && !cold {
			f.Reenter = 32 << r.n(5)
		}
		if r.chance(1, 3) {
			f.Abort = 64 << r.n(3)
		}
		if r.chance(1, 3) {
			f.Goexit = 64 << r.n(3)
		}
	}
	c.Sched = genSched(r, nt)
	return c
}

func genSched(r *rnd, nt int) SchedM {
	s := SchedM{Seed: r.u64()}
	switch r.n(8) {
	case 0, 1, 2:
		s.Strategy = "random"
		s.SwitchInv = 2 << r.n(9)
		s.BoostInv = 1 + uint64(r.n(4))
	case 3, 4:
		s.Strategy = "pct"
		s.PCTDepth = 1 + r.n(3)
	case 5:
		s.Strategy = "rr"
		s.Quantum = 1 + uint64(r.n(40))
	case 6:
		s.Strategy = "starve"
		s.SwitchInv = 2 << r.n(6)
		s.BoostInv = 1 + uint64(r.n(3))
		s.Victim = r.n(nt)
		s.StarveFr = uint64(32 + r.n(200))
	default:
		// fine-grained random: a decision at every yield
		s.Strategy = "random"
		s.SwitchInv = 2
		s.BoostInv = 2
	}
	return s
}

func genOp(r *rnd) OpM {
	k := opKinds[r.n(len(opKinds))]
	op := OpM{Kind: k, Target: r.n(1 << 20), Expr: r.n(1 << 20), Mask: r.u64()}
	if k == "value" && r.chance(1, 12) {
		op.NilCtx = true
	}
	if k == "expand_decode" && r.chance(1, 3) {
		op.Check = true
	}
	return op
}

// ---- rendering ----

func renderNative(b BodyM, ind string) string {
	var s strings.Builder
	for _, a := range b.Attrs {
		fmt.Fprintf(&s, "%s%s = %s\n", ind, a.Name, a.Expr)
	}
	for _, bl := range b.Blocks {
		if bl.Dyn != nil {
			fmt.Fprintf(&s, "%sdynamic %q {\n", ind, bl.Type)
			fmt.Fprintf(&s, "%s  for_each = %s\n", ind, bl.Dyn.ForEach)
			if bl.Dyn.Iterator != "" {
				fmt.Fprintf(&s, "%s  iterator = %s\n", ind, bl.Dyn.Iterator)
			}
			if len(bl.Dyn.Labels) > 0 {
				fmt.Fprintf(&s, "%s  labels = [%s]\n", ind, strings.Join(bl.Dyn.Labels, ", "))
			}
			fmt.Fprintf(&s, "%s  content {\n%s%s  }\n%s}\n", ind, renderNative(bl.Body, ind+"    "), ind, ind)
			continue
		}
		fmt.Fprintf(&s, "%s%s", ind, bl.Type)
		for _, l := range bl.Labels {
			fmt.Fprintf(&s, " %q", l)
		}
		fmt.Fprintf(&s, " {\n%s%s}\n", renderNative(bl.Body, ind+"  "), ind)
	}
	return s.String()
}

func jstr(s string) string {
	var b strings.Builder
	b.WriteByte('"')
	for _, c := range s {
		switch c {
		case '"':
			b.WriteString(`\"`)
		case '\\':
			b.WriteString(`\\`)
		case '\n':
			b.WriteString(`\n`)
		default:
			b.WriteRune(c)
		}
	}
	b.WriteByte('"')
	return b.String()
}

func jexpr(e string) string { return jstr("${" + e + "}") }

// renderJSON renders a body as a JSON object, or (arr > 0) as an array of
// objects among which the properties are distributed — both are valid JSON
// syntax bodies.
func renderJSON(b BodyM, arr int) string {
	var parts []string
	for _, a := range b.Attrs {
		switch {
		case len(a.JList) > 0:
			var els []string
			for _, e := range a.JList {
				els = append(els, jexpr(e))
			}
			parts = append(parts, jstr(a.Name)+": ["+strings.Join(els, ", ")+"]")
		case len(a.JKeys) > 0:
			var els []string
			for i, k := range a.JKeys {
				els = append(els, jstr(k)+": "+jexpr(a.JVals[i]))
			}
			parts = append(parts, jstr(a.Name)+": {"+strings.Join(els, ", ")+"}")
		default:
			parts = append(parts, jstr(a.Name)+": "+jexpr(a.Expr))
		}
	}
	// group static blocks by type, dynamic blocks under "dynamic"
	var order []string
	static := map[string][]string{}
	var dorder []string
	dyn := map[string][]string{}
	for _, bl := range b.Blocks {
		if bl.Dyn != nil {
			var dp []string
			dp = append(dp, `"for_each": `+jexpr(bl.Dyn.ForEach))
			if bl.Dyn.Iterator != "" {
				dp = append(dp, `"iterator": `+jstr(bl.Dyn.Iterator))
			}
			if len(bl.Dyn.Labels) > 0 {
				var ls []string
				for _, l := range bl.Dyn.Labels {
					ls = append(ls, jexpr(l))
				}
				dp = append(dp, `"labels": [`+strings.Join(ls, ", ")+`]`)
			}
			dp = append(dp, `"content": `+renderJSON(bl.Body, arr))
			if _, ok := dyn[bl.Type]; !ok {
				dorder = append(dorder, bl.Type)
			}
			dyn[bl.Type] = append(dyn[bl.Type], "{"+strings.Join(dp, ", ")+"}")
			continue
		}
		body := renderJSON(bl.Body, arr)
		for i := len(bl.Labels) - 1; i >= 0; i-- {
			body = "{" + jstr(bl.Labels[i]) + ": " + body + "}"
		}
		if _, ok := static[bl.Type]; !ok {
			order = append(order, bl.Type)
		}
		static[bl.Type] = append(static[bl.Type], body)
	}
	for _, t := range order {
		parts = append(parts, jstr(t)+": ["+strings.Join(static[t], ", ")+"]")
	}
	if len(dorder) > 0 {
		var dp []string
		for _, t := range dorder {
			dp = append(dp, jstr(t)+": ["+strings.Join(dyn[t], ", ")+"]")
		}
		parts = append(parts, `"dynamic": {`+strings.Join(dp, ", ")+"}")
	}
	// "//" properties are comments in a JSON body; where one goes depends on
	// the body's shape only (no extra field in the case description)
	switch len(parts) % 4 {
	case 1:
		parts = append([]string{`"//": "a comment property"`}, parts...)
	case 2:
		mid := len(parts) / 2
		parts = append(parts[:mid:mid], append([]string{`"//": ["comment", "in the middle"]`}, parts[mid:]...)...)
	}
	if arr > 0 && len(parts) >= 2 {
		// first object gets all but the last one or two properties (parsers
		// grow their slices 1,2,4,8: 3 and 5-7 leave spare capacity)
		cut := len(parts) - 1
		if arr == 2 && len(parts) >= 3 {
			cut = len(parts) - 2
		}
		return "[{" + strings.Join(parts[:cut], ", ") + "}, {" + strings.Join(parts[cut:], ", ") + "}]"
	}
	return "{" + strings.Join(parts, ", ") + "}"
}

func (f FileM) Source() string {
	if f.Syntax == "json" {
		return renderJSON(f.Body, f.JSONArray) + "\n"
	}
	return renderNative(f.Body, "")
}
