package main

import (
	"fmt"
	"runtime"
	"sort"

	"github.com/hashicorp/hcl/v2"
	"github.com/hashicorp/hcl/v2/ext/dynblock"
	"github.com/hashicorp/hcl/v2/ext/tryfunc"
	"github.com/hashicorp/hcl/v2/ext/userfunc"
	"github.com/hashicorp/hcl/v2/hcldec"
	"github.com/hashicorp/hcl/v2/hclsyntax"
	hcljson "github.com/hashicorp/hcl/v2/json"
	"github.com/hashicorp/hcl/v2/zzsim"
	"github.com/zclconf/go-cty/cty"
	"github.com/zclconf/go-cty/cty/function"
	"github.com/zclconf/go-cty/cty/function/stdlib"
)

const siteCB = 0xfffffff0

type bodyEnt struct {
	body hcl.Body
	kind string // root b0 b1 kv inner dyn
}

// World is one parsed instance of a case's configuration plus everything
// derived from it before any task runs.  Two worlds are built per run: a
// private one for the sequential reference and the shared one for the
// simulated concurrent phase.
type World struct {
	c         *Case
	rootNames []string // all root attribute names over all files, sorted
	roots     []hcl.Body
	merged    hcl.Body
	cat       *catalog
	// pretouch worlds resolve every recipe once at set-up (every shared body
	// has then already answered a Content call when the tasks start); lazy
	// worlds resolve inside the task, so that first uses of the shared tree
	// happen concurrently.
	pretouch bool
	bodies   []bodyEnt // pretouch only
	exprs    []hcl.Expression
	remains  []hcl.Body
	funcs     map[string]function.Function
	sharedCtx *hcl.EvalContext
	funcCtx   *hcl.EvalContext
	spec      hcldec.Spec
	expanded  []hcl.Body
	taskCtx   []*hcl.EvalContext
	setupDiag string
	rs        *runState
}

// perTask is written only by its own task.
type perTask struct {
	op      int
	side    []func() string
	depth   int
	fired   [8]uint64
	probes  [8]uint64
	termHit bool
	_       [8]uint64
}

const (
	fError = iota
	fPanic
	fSlow
	fReenter
	fAbort
	fGoexit
)

var faultNames = []string{"cb_error", "cb_panic", "cb_slow", "cb_reenter", "cb_abort", "cb_goexit"}

const (
	pGoexitInWindow = iota
	pReenterInWindow
	pCallbackInWindow
	pNilCtxSplat
	pCallbacks
)

var probeNames = []string{"goexit_inside_each", "reenter_inside_each", "callback_inside_each", "nil_ctx_value", "callbacks"}

type runState struct {
	solo     bool
	soloTask int
	pt       [zzsim.MaxTasks]perTask
}

func (w *World) task() int {
	if t := zzsim.Cur(); t >= 0 {
		return t
	}
	return w.rs.soloTask
}

func strHash(s string) uint64 {
	h := uint64(0xcbf29ce484222325)
	for i := 0; i < len(s); i++ {
		h = (h ^ uint64(s[i])) * 0x100000001b3
	}
	return h
}

// fault decides, statelessly, which fault (if any) a callback invocation
// fires.  The decision depends only on (fault seed, task, op, callback, arg),
// so the sequential reference and the simulated run inject identical faults.
func (w *World) fault(cb string, arg string, canAbort bool) int {
	t := w.task()
	pt := &w.rs.pt[t]
	pt.probes[pCallbacks]++
	inWin := zzsim.InWindow()
	if inWin {
		pt.probes[pCallbackInWindow]++
	}
	f := &w.c.Faults
	base := zzsim.Mix(zzsim.Mix(f.Seed, uint64(t)), uint64(pt.op))
	term := int(zzsim.Mix(base, 0xdead) % 1024)
	if !pt.termHit {
		if term < f.Abort {
			if canAbort {
				pt.termHit = true
				pt.fired[fAbort]++
				return fAbort
			}
		} else if term < f.Abort+f.Goexit && !canAbort {
			pt.termHit = true
			pt.fired[fGoexit]++
			if inWin {
				pt.probes[pGoexitInWindow]++
			}
			return fGoexit
		}
	}
	h := zzsim.Mix(base, strHash(cb)^strHash(arg)*31)
	x := int(h % 1024)
	switch {
	case x < f.Error:
		pt.fired[fError]++
		return fError
	case x < f.Error+f.Panic:
		pt.fired[fPanic]++
		return fPanic
	case x < f.Error+f.Panic+f.Slow:
		pt.fired[fSlow]++
		return fSlow
	case x < f.Error+f.Panic+f.Slow+f.Reenter:
		pt.fired[fReenter]++
		if inWin {
			pt.probes[pReenterInWindow]++
		}
		return fReenter
	}
	return -1
}

// applyFault performs the side of a fault that is common to all callbacks.
// It returns an error for cb_error; panics for cb_panic/cb_abort; never
// returns for cb_goexit.
func (w *World) applyFault(kind int, cb, arg string) error {
	switch kind {
	case fError:
		return fmt.Errorf("simulated failure in %s", cb)
	case fPanic:
		panic("simulated panic in " + cb)
	case fAbort:
		panic("simulated abort")
	case fGoexit:
		runtime.Goexit()
	case fSlow:
		k := 1 + int(strHash(arg)%200)
		for i := 0; i < k; i++ {
			zzsim.Yield(siteCB)
		}
	case fReenter:
		t := w.task()
		pt := &w.rs.pt[t]
		if pt.depth < 2 && w.nExprs() > 0 {
			pt.depth++
			idx := int(zzsim.Mix(strHash(arg), uint64(pt.op)) % uint64(w.nExprs()))
			ctx := w.taskCtx[t].NewChild()
			e, name := w.expr(idx)
			v, d := e.Value(ctx)
			pt.side = append(pt.side, func() string { return fmt.Sprintf("reenter[%s]=%s !%s", name, dumpVal(v), dumpDiags(d)) })
			pt.depth--
		}
	}
	return nil
}

func (w *World) cbFunc(name string, ty cty.Type) function.Function {
	return function.New(&function.Spec{
		Params: []function.Parameter{{Name: "x", Type: ty, AllowUnknown: true, AllowNull: true, AllowMarked: true, AllowDynamicType: true}},
		Type:   func(args []cty.Value) (cty.Type, error) { return args[0].Type(), nil },
		Impl: func(args []cty.Value, retType cty.Type) (cty.Value, error) {
			zzsim.Decision(siteCB)
			arg := dumpVal(args[0])
			k := w.fault(name, arg, false)
			if k >= 0 {
				if err := w.applyFault(k, name, arg); err != nil {
					return cty.NilVal, err
				}
			}
			zzsim.Decision(siteCB)
			return args[0], nil
		},
	})
}

func (w *World) validateCB(name string) func(cty.Value) hcl.Diagnostics {
	return func(v cty.Value) hcl.Diagnostics {
		zzsim.Decision(siteCB)
		arg := dumpVal(v)
		k := w.fault(name, arg, true)
		var diags hcl.Diagnostics
		if k >= 0 {
			if err := w.applyFault(k, name, arg); err != nil {
				diags = append(diags, &hcl.Diagnostic{Severity: hcl.DiagError, Summary: "Simulated validation failure", Detail: err.Error()})
			}
		}
		zzsim.Decision(siteCB)
		return diags
	}
}

func (w *World) checkForEachCB() func(cty.Value, hcl.Expression, *hcl.EvalContext) hcl.Diagnostics {
	f := w.validateCB("check_for_each")
	return func(v cty.Value, e hcl.Expression, _ *hcl.EvalContext) hcl.Diagnostics {
		d := f(v)
		for _, x := range d {
			x.Subject = e.Range().Ptr()
		}
		return d
	}
}

func (w *World) baseFuncs() map[string]function.Function {
	return map[string]function.Function{
		"upper":    stdlib.UpperFunc,
		"join":     stdlib.JoinFunc,
		"length":   stdlib.LengthFunc,
		"concat":   stdlib.ConcatFunc,
		"flatten":  stdlib.FlattenFunc,
		"split":    stdlib.SplitFunc,
		"format":   stdlib.FormatFunc,
		"min":      stdlib.MinFunc,
		"max":      stdlib.MaxFunc,
		"contains": stdlib.ContainsFunc,
		"alltrue":  allTrueFunc,
		"sort":     stdlib.SortFunc,
		"try":      tryfunc.TryFunc,
		"can":      tryfunc.CanFunc,
		"cb_str":   w.cbFunc("cb_str", cty.DynamicPseudoType),
		"cb_num":   w.cbFunc("cb_num", cty.DynamicPseudoType),
		"cb_re":    w.cbFunc("cb_re", cty.DynamicPseudoType),
	}
}

var allTrueFunc = function.New(&function.Spec{
	Params: []function.Parameter{{Name: "l", Type: cty.DynamicPseudoType, AllowMarked: false}},
	Type:   function.StaticReturnType(cty.Bool),
	Impl: func(args []cty.Value, _ cty.Type) (cty.Value, error) {
		if !args[0].CanIterateElements() {
			return cty.NilVal, fmt.Errorf("alltrue needs a collection")
		}
		r := cty.True
		for it := args[0].ElementIterator(); it.Next(); {
			_, v := it.Element()
			if !v.IsKnown() {
				return cty.UnknownVal(cty.Bool), nil
			}
			if v.IsNull() || v.Type() != cty.Bool || v.False() {
				r = cty.False
			}
		}
		return r, nil
	},
})

func varsMap(vs []VarM) map[string]cty.Value {
	m := make(map[string]cty.Value, len(vs))
	for _, v := range vs {
		m[v.Name] = v.Val.Cty()
	}
	return m
}

var dynSchema = &hcl.BodySchema{
	Attributes: []hcl.AttributeSchema{{Name: "for_each"}, {Name: "iterator"}, {Name: "labels"}},
	Blocks:     []hcl.BlockHeaderSchema{{Type: "content"}},
}

// kindSchema returns the complete schema for a body of the given kind.
func (w *World) kindSchema(kind string) *hcl.BodySchema {
	dyn := hcl.BlockHeaderSchema{Type: "dynamic", LabelNames: []string{"type"}}
	switch kind {
	case "root":
		s := &hcl.BodySchema{}
		for _, n := range w.rootNames {
			s.Attributes = append(s.Attributes, hcl.AttributeSchema{Name: n})
		}
		s.Blocks = []hcl.BlockHeaderSchema{{Type: "b0"}, {Type: "b1", LabelNames: []string{"name"}}, {Type: "kv"},
			{Type: "tl"}, {Type: "ts"}, {Type: "tm", LabelNames: []string{"key"}}, dyn}
		return s
	case "tl", "ts", "tm":
		return &hcl.BodySchema{Attributes: []hcl.AttributeSchema{{Name: "s"}}}
	case "b0":
		return &hcl.BodySchema{
			Attributes: []hcl.AttributeSchema{{Name: "p"}, {Name: "q"}},
			Blocks:     []hcl.BlockHeaderSchema{{Type: "inner"}, dyn},
		}
	case "b1":
		return &hcl.BodySchema{Attributes: []hcl.AttributeSchema{{Name: "p"}}}
	case "inner":
		return &hcl.BodySchema{Attributes: []hcl.AttributeSchema{{Name: "r"}}}
	case "kv":
		return &hcl.BodySchema{Attributes: []hcl.AttributeSchema{{Name: "k0"}, {Name: "k1"}, {Name: "k2"}}}
	case "dyn":
		return dynSchema
	}
	panic("kind " + kind)
}

// step descends into the idx-th block of the content obtained with the full
// schema of the current body kind; kind is the kind of the body reached.
type step struct {
	idx  int
	kind string
}

type bodyRecipe struct {
	root  int // index into roots; len(roots) = the merged body
	steps []step
	kind  string
}

type exprRecipe struct {
	body bodyRecipe
	attr string
	name string
}

// catalog lists every body and attribute expression reachable in a case's
// configuration as navigation recipes.  It is computed once, on the private
// reference world, and is valid for the shared world too (same sources).
type catalog struct {
	bodies []bodyRecipe
	exprs  []exprRecipe
}

// emptyCatalog is used by cold cases, whose ops need no catalogue.
var emptyCatalog = &catalog{}

func (w *World) rootBody(i int) hcl.Body {
	if i >= len(w.roots) {
		return w.merged
	}
	return w.roots[i]
}

func (w *World) resolveBody(r bodyRecipe) hcl.Body {
	body := w.rootBody(r.root)
	kind := "root"
	for _, st := range r.steps {
		content, _ := body.Content(w.kindSchema(kind))
		if st.idx >= len(content.Blocks) {
			panic("catalog recipe does not resolve")
		}
		body = content.Blocks[st.idx].Body
		kind = st.kind
	}
	return body
}

func (w *World) resolveExpr(r exprRecipe) hcl.Expression {
	body := w.resolveBody(r.body)
	content, _ := body.Content(w.kindSchema(r.body.kind))
	return content.Attributes[r.attr].Expr
}

func (w *World) walk(body hcl.Body, rec bodyRecipe, path, dynLabel string, diagsOut *hcl.Diagnostics) {
	w.cat.bodies = append(w.cat.bodies, rec)
	content, diags := body.Content(w.kindSchema(rec.kind))
	*diagsOut = append(*diagsOut, diags...)
	names := make([]string, 0, len(content.Attributes))
	for n := range content.Attributes {
		names = append(names, n)
	}
	sort.Strings(names)
	for _, n := range names {
		w.cat.exprs = append(w.cat.exprs, exprRecipe{body: rec, attr: n, name: path + "/" + n})
	}
	for i, bl := range content.Blocks {
		p := fmt.Sprintf("%s/%s[%d]", path, bl.Type, i)
		kind := bl.Type
		dl := ""
		switch bl.Type {
		case "dynamic":
			kind, dl = "dyn", bl.Labels[0]
		case "content":
			kind = dynLabel
		}
		child := bodyRecipe{root: rec.root, steps: append(append([]step{}, rec.steps...), step{i, kind}), kind: kind}
		w.walk(bl.Body, child, p, dl, diagsOut)
	}
}

// halfSchema is the schema used to produce the shared "remain" bodies.
func (w *World) halfSchema(i int) *hcl.BodySchema {
	full := w.kindSchema("root")
	half := &hcl.BodySchema{}
	for j, a := range full.Attributes {
		if (j+i)%2 == 0 {
			half.Attributes = append(half.Attributes, a)
		}
	}
	half.Blocks = full.Blocks[:1+i%2]
	return half
}

func (w *World) nExprs() int { return len(w.cat.exprs) }

var noExpr hcl.Expression = hcl.StaticExpr(cty.StringVal("no catalogue"), hcl.Range{})

func (w *World) expr(i int) (hcl.Expression, string) {
	if len(w.cat.exprs) == 0 {
		return noExpr, "none"
	}
	i %= len(w.cat.exprs)
	if w.pretouch {
		return w.exprs[i], w.cat.exprs[i].name
	}
	return w.resolveExpr(w.cat.exprs[i]), w.cat.exprs[i].name
}

// body returns the i-th content target: every catalogued body, then the merged
// body, then one remain body per root target.
func (w *World) body(i int) bodyEnt {
	n := len(w.cat.bodies)
	i %= n + 1 + len(w.roots) + 1
	switch {
	case i < n:
		if w.pretouch {
			return w.bodies[i]
		}
		return bodyEnt{w.resolveBody(w.cat.bodies[i]), w.cat.bodies[i].kind}
	case i == n:
		return bodyEnt{w.merged, "root"}
	}
	return bodyEnt{w.remain(i - n - 1), "root"}
}

func (w *World) remain(i int) hcl.Body {
	if w.pretouch {
		return w.remains[i]
	}
	_, remain, _ := w.rootBody(i).PartialContent(w.halfSchema(i))
	return remain
}

// rootTarget returns the i-th decode target: files, merged, remain bodies.
func (w *World) rootTarget(i int) hcl.Body {
	k := len(w.roots) + 1
	i %= 2 * k
	if i < k {
		return w.rootBody(i)
	}
	return w.remain(i - k)
}

func (w *World) buildSpec() hcldec.Spec {
	c := w.c
	attr := func(name string, salt uint64) hcldec.Spec {
		var s hcldec.Spec = &hcldec.AttrSpec{Name: name, Type: cty.DynamicPseudoType}
		switch zzsim.Mix(c.SpecSeed, strHash(name)^salt) % 8 {
		case 0, 1:
			s = &hcldec.ValidateSpec{Wrapped: s, Func: w.validateCB("validate_" + name)}
		case 2:
			s = &hcldec.DefaultSpec{Primary: s, Default: &hcldec.LiteralSpec{Value: cty.StringVal("dflt")}}
		case 3:
			s = &hcldec.TransformFuncSpec{Wrapped: s, Func: w.funcs["cb_str"]}
		}
		return s
	}
	inner := hcldec.ObjectSpec{"r": attr("r", 3)}
	b0 := hcldec.ObjectSpec{
		"p":     attr("p", 1),
		"q":     attr("q", 1),
		"inner": &hcldec.BlockTupleSpec{TypeName: "inner", Nested: inner},
	}
	b1 := hcldec.ObjectSpec{
		"p":    attr("p", 2),
		"name": &hcldec.BlockLabelSpec{Index: 0, Name: "name"},
	}
	// label name slices as an application may well have built them: with spare
	// capacity (append, make with a capacity)
	labelNames := func(n string) []string {
		if zzsim.Mix(c.SpecSeed, strHash(n))%2 == 0 {
			return []string{n}
		}
		l := make([]string, 0, 4)
		return append(l, n)
	}
	root := hcldec.ObjectSpec{
		"b0": &hcldec.BlockTupleSpec{TypeName: "b0", Nested: b0},
		"b1": &hcldec.BlockObjectSpec{TypeName: "b1", LabelNames: labelNames("name"), Nested: b1},
		"kv": &hcldec.BlockAttrsSpec{TypeName: "kv", ElementType: cty.String},
		"tl": &hcldec.BlockListSpec{TypeName: "tl", Nested: hcldec.ObjectSpec{"s": &hcldec.AttrSpec{Name: "s", Type: cty.String}}},
		"ts": &hcldec.BlockSetSpec{TypeName: "ts", Nested: hcldec.ObjectSpec{"s": &hcldec.AttrSpec{Name: "s", Type: cty.String}}},
		"tm": &hcldec.BlockMapSpec{TypeName: "tm", LabelNames: labelNames("key"), Nested: hcldec.ObjectSpec{
			"s": &hcldec.AttrSpec{Name: "s", Type: cty.String}, "key": &hcldec.BlockLabelSpec{Index: 0, Name: "key"}}},
	}
	if zzsim.Mix(c.SpecSeed, 77)%4 == 0 {
		root["b0"] = &hcldec.ValidateSpec{Wrapped: root["b0"], Func: w.validateCB("validate_b0")}
	}
	for _, n := range w.rootNames {
		root[n] = attr(n, 0)
	}
	return root
}

// buildWorld parses everything afresh.  The simulator must be off or counting.
func buildWorld(c *Case, cat *catalog, pretouch bool) *World {
	w := &World{c: c, rs: &runState{}}
	var sd hcl.Diagnostics
	for _, f := range c.Files {
		for _, a := range f.Body.Attrs {
			w.rootNames = append(w.rootNames, a.Name)
		}
	}
	sort.Strings(w.rootNames)

	w.funcs = w.baseFuncs()
	w.funcCtx = &hcl.EvalContext{Functions: w.funcs, Variables: varsMap(c.Shared)}
	pf, diags := hclsyntax.ParseConfig([]byte(c.Prelude), "prelude.hcl", hcl.InitialPos)
	sd = append(sd, diags...)
	ufs, _, diags := userfunc.DecodeUserFunctions(pf.Body, "function", func() *hcl.EvalContext { return w.funcCtx })
	sd = append(sd, diags...)
	ufNames := make([]string, 0, len(ufs))
	for n := range ufs {
		ufNames = append(ufNames, n)
	}
	sort.Strings(ufNames)
	for _, n := range ufNames {
		w.funcs[n] = ufs[n]
	}
	w.sharedCtx = &hcl.EvalContext{Variables: varsMap(c.Shared), Functions: w.funcs}

	for i, f := range c.Files {
		var file *hcl.File
		if f.Syntax == "json" {
			file, diags = hcljson.Parse([]byte(f.Source()), fmt.Sprintf("f%d.hcl.json", i))
		} else {
			file, diags = hclsyntax.ParseConfig([]byte(f.Source()), fmt.Sprintf("f%d.hcl", i), hcl.InitialPos)
		}
		sd = append(sd, diags...)
		w.roots = append(w.roots, file.Body)
	}
	w.merged = hcl.MergeBodies(w.roots)
	if cat == nil {
		// reference world: build the catalogue by walking everything
		w.cat = &catalog{}
		for i, b := range w.roots {
			w.walk(b, bodyRecipe{root: i, kind: "root"}, fmt.Sprintf("f%d", i), "", &sd)
		}
		w.pretouch = true
	} else {
		w.cat = cat
		w.pretouch = pretouch
	}
	if w.pretouch {
		for _, r := range w.cat.bodies {
			w.bodies = append(w.bodies, bodyEnt{w.resolveBody(r), r.kind})
		}
		for _, r := range w.cat.exprs {
			w.exprs = append(w.exprs, w.resolveExpr(r))
		}
		// remain bodies: what partial processing leaves behind is itself a shared object
		for i := 0; i <= len(w.roots); i++ {
			_, remain, d := w.rootBody(i).PartialContent(w.halfSchema(i))
			sd = append(sd, d...)
			w.remains = append(w.remains, remain)
		}
	}
	w.spec = w.buildSpec()
	var opts []dynblock.ExpandOption
	if c.ExpandCheck {
		opts = append(opts, dynblock.OptCheckForEach(w.checkForEachCB()))
	}
	// shared Expand results (Expand itself does not touch the body)
	for i := 0; i <= len(w.roots); i++ {
		w.expanded = append(w.expanded, dynblock.Expand(w.rootBody(i), w.sharedCtx, opts...))
	}
	// per-task base contexts
	for _, t := range c.Tasks {
		own := varsMap(t.Vars)
		var ctx *hcl.EvalContext
		switch t.CtxMode {
		case "own":
			for k, v := range w.sharedCtx.Variables {
				own[k] = v
			}
			ctx = &hcl.EvalContext{Variables: own, Functions: w.funcs}
		case "grandchild":
			ctx = w.sharedCtx.NewChild().NewChild()
			ctx.Variables = own
		default:
			ctx = w.sharedCtx.NewChild()
			ctx.Variables = own
		}
		w.taskCtx = append(w.taskCtx, ctx)
	}
	w.setupDiag = dumpDiags(sd)
	return w
}
