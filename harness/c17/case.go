package main

import "github.com/hashicorp/hcl/v2/zzsim"

// Case is one fully explicit simulated run: shared configuration, per-task
// programs and values, fault plan and scheduling configuration.  A Case is
// generated from a seed, serialised into replay files, and edited by the
// minimiser; executing a Case never consults anything else.
type Case struct {
	Property string  `json:"property"`
	Seed     uint64  `json:"seed"`
	Note     string  `json:"note,omitempty"`
	Prelude  string  `json:"prelude"` // native file declaring user functions
	Files    []FileM `json:"files"`
	SpecSeed uint64  `json:"spec_seed"`
	Shared   []VarM  `json:"shared_vars"` // variables of the shared parent context
	Tasks    []TaskM `json:"tasks"`
	Faults   FaultM  `json:"faults"`
	Sched    SchedM  `json:"sched"`
	MapSalt  uint64  `json:"map_salt"`
	// ExpandCheck: the shared Expand results are built with OptCheckForEach
	ExpandCheck bool `json:"expand_check"`
	// Pretouch: the shared world resolves its whole catalogue (one Content call
	// on every body, shared remain bodies) before the tasks start; otherwise
	// the tasks make the first calls themselves, concurrently.
	Pretouch bool `json:"pretouch"`
	// ConcFirst: the concurrent phase runs before the sequential reference (and
	// before the catalogue walk); only catalogue-free ops are used.
	ConcFirst bool `json:"conc_first,omitempty"`

	// PoolsRetain: sync.Pool behaves normally in this run (it retains items);
	// otherwise every pool drops what is put into it, which keeps pooled objects
	// (fmt's printers, for one) from ordering otherwise unrelated tasks.
	PoolsRetain bool `json:"pools_retain,omitempty"`

	// refOf: this case differs from *refOf only in its schedule, so the
	// sequential reference computed for *refOf is valid for it (not serialised).
	refOf *Case
	// recordBoosted: ask the scheduler for the boosted decision points passed (not serialised).
	recordBoosted bool
}

type FileM struct {
	Syntax    string `json:"syntax"` // "native" | "json"
	Body      BodyM  `json:"body"`
	JSONArray int    `json:"json_array,omitempty"` // >0: bodies rendered as arrays of objects
}

type BodyM struct {
	Attrs  []AttrM  `json:"attrs,omitempty"`
	Blocks []BlockM `json:"blocks,omitempty"`
}

type AttrM struct {
	Name string `json:"name"`
	Expr string `json:"expr"` // native expression syntax
	// JSON rendering as a native JSON array / object of sub-expressions (Expr
	// then is the equivalent tuple / object constructor)
	JList []string `json:"jlist,omitempty"`
	JKeys []string `json:"jkeys,omitempty"`
	JVals []string `json:"jvals,omitempty"`
}

type BlockM struct {
	Type   string   `json:"type"`
	Labels []string `json:"labels,omitempty"`
	Body   BodyM    `json:"body"`
	Dyn    *DynM    `json:"dyn,omitempty"` // non-nil: this is `dynamic "<Type>"`
}

type DynM struct {
	ForEach  string   `json:"for_each"`
	Iterator string   `json:"iterator,omitempty"`
	Labels   []string `json:"labels,omitempty"` // expressions
}

type VarM struct {
	Name string `json:"name"`
	Val  V      `json:"val"`
}

type TaskM struct {
	CtxMode string `json:"ctx_mode"` // "own" | "child" | "grandchild"
	Vars    []VarM `json:"vars"`
	Ops     []OpM  `json:"ops"`
}

// OpM is one public-API call made by a task.
type OpM struct {
	Kind   string `json:"kind"`
	Target int    `json:"target"`           // index into the body catalogue (see world.go)
	Expr   int    `json:"expr,omitempty"`   // index into the expression catalogue
	NilCtx bool   `json:"nil_ctx,omitempty"`
	Mask   uint64 `json:"mask,omitempty"`   // schema selection for content/partial
	Check  bool   `json:"check,omitempty"`  // own Expand with OptCheckForEach
}

type FaultM struct {
	Seed uint64 `json:"seed"`
	// probability (per 1024) that a callback invocation fires a fault of the kind
	Error   int `json:"cb_error"`
	Panic   int `json:"cb_panic"`
	Slow    int `json:"cb_slow"`
	Reenter int `json:"cb_reenter"`
	// per op: probability (per 1024) that the op is designated to die by an
	// un-recovered panic (abort) / runtime.Goexit at one of its callbacks
	Abort  int `json:"cb_abort"`
	Goexit int `json:"cb_goexit"`
}

type SchedM struct {
	Strategy  string         `json:"strategy"`
	SwitchInv uint64         `json:"switch_inv,omitempty"`
	BoostInv  uint64         `json:"boost_inv,omitempty"`
	PCTDepth  int            `json:"pct_depth,omitempty"`
	Quantum   uint64         `json:"quantum,omitempty"`
	Victim    int            `json:"victim,omitempty"`
	StarveFr  uint64         `json:"starve_frac_256,omitempty"` // starve until this fraction (/256) of the estimated steps
	Seed      uint64         `json:"seed"`
	Replay    []zzsim.Switch `json:"replay,omitempty"`
}

// Result is what executing a case yields.
type Result struct {
	Seed       uint64       `json:"seed"`
	Verdict    string       `json:"verdict"` // ok | mismatch | (deadlock, budget, ... come from the process exit)
	Detail     string       `json:"detail,omitempty"`
	Task       int          `json:"task,omitempty"`
	Op         int          `json:"op,omitempty"`
	Expected   string       `json:"expected,omitempty"`
	Actual     string       `json:"actual,omitempty"`
	DiffAt     int          `json:"diff_at,omitempty"`
	SoloSteps  uint64       `json:"solo_steps"`
	Stats      zzsim.Stats  `json:"stats"`
	Probes     map[string]uint64 `json:"probes"`
	Fired      map[string]uint64 `json:"fired"`
	OutHash    uint64       `json:"out_hash"`
	NTasks     int          `json:"ntasks"`
	NOps       int          `json:"nops"`
	Strategy   string       `json:"strategy"`
	FaultFree  bool         `json:"fault_free"`
	OpKinds    map[string]uint64 `json:"op_kinds"`
	ErrOps     int          `json:"err_ops"`
}
