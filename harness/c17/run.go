package main

import (
	"fmt"
	"os"
	"runtime"
	"runtime/debug"
	"sort"
	"strings"
	"sync"

	"github.com/hashicorp/hcl/v2/zzsim"
)

const notRun = "<not run: task ended by runtime.Goexit in an earlier op>"

// program returns the function a task executes: its ops in order, each
// recorded (still unrendered) into raw[t].
func (w *World) program(t int, raw [][]lazyOut) func() {
	return func() {
		pt := &w.rs.pt[t]
		for i, op := range w.c.Tasks[t].Ops {
			pt.op = i
			zzsim.OpStart(i)
			pt.side = nil
			pt.termHit = false
			raw[t][i].state = 1
			o := w.execOp(t, op)
			raw[t][i] = lazyOut{state: 2, out: o, side: pt.side}
		}
	}
}

// lazyOut is an op's outcome before rendering. state: 0 not run, 1 in flight
// when the task ended (runtime.Goexit), 2 finished.
type lazyOut struct {
	state int
	out   func() string
	side  []func() string
}

func render(raw [][]lazyOut) [][]string {
	outs := make([][]string, len(raw))
	for t := range raw {
		outs[t] = make([]string, len(raw[t]))
		for i, lo := range raw[t] {
			switch lo.state {
			case 0:
				outs[t][i] = notRun
			case 1:
				outs[t][i] = "<in flight: ended by runtime.Goexit>"
			default:
				o := lo.out()
				if len(lo.side) > 0 {
					var ss []string
					for _, f := range lo.side {
						ss = append(ss, f())
					}
					sort.Strings(ss)
					o += "\n  side: " + strings.Join(ss, "\n  side: ")
				}
				outs[t][i] = o
			}
		}
	}
	return outs
}

func newRaw(c *Case) [][]lazyOut {
	raw := make([][]lazyOut, len(c.Tasks))
	for t := range raw {
		raw[t] = make([]lazyOut, len(c.Tasks[t].Ops))
	}
	return raw
}

func schedConfig(c *Case, est uint64) zzsim.Config {
	s := c.Sched
	cfg := zzsim.Config{
		Seed: s.Seed, SwitchInv: s.SwitchInv, BoostInv: s.BoostInv, PCTDepth: s.PCTDepth,
		EstSteps: est, Quantum: s.Quantum, Victim: s.Victim, StarveTo: est * s.StarveFr / 256,
		Budget: 64*est + 200000, MapSalt: c.MapSalt, RecordBoosted: c.recordBoosted,
	}
	switch s.Strategy {
	case "random":
		cfg.Strategy = zzsim.StratRandom
	case "pct":
		cfg.Strategy = zzsim.StratPCT
	case "rr":
		cfg.Strategy = zzsim.StratRR
	case "starve":
		cfg.Strategy = zzsim.StratStarve
	case "replay":
		cfg.Strategy = zzsim.StratReplay
		cfg.Replay = s.Replay
	default:
		panic("strategy " + s.Strategy)
	}
	return cfg
}

func raceLogSize() int64 {
	p := os.Getenv("VERIF_RACE_LOG")
	if p == "" {
		return 0
	}
	fi, err := os.Stat(p + "." + itoa(os.Getpid()))
	if err != nil {
		return 0
	}
	return fi.Size()
}

func itoa(i int) string {
	if i == 0 {
		return "0"
	}
	var b [20]byte
	p := len(b)
	for i > 0 {
		p--
		b[p] = byte('0' + i%10)
		i /= 10
	}
	return string(b[p:])
}

// runCase executes a case: sequential reference on a private world, then the
// simulated concurrent phase on a shared world, then the comparison.
func runCase(c *Case) *Result {
	res := &Result{Seed: c.Seed, Verdict: "ok", NTasks: len(c.Tasks), Strategy: c.Sched.Strategy,
		Probes: map[string]uint64{}, Fired: map[string]uint64{}, OpKinds: map[string]uint64{}}
	f := c.Faults
	res.FaultFree = f.Error+f.Panic+f.Slow+f.Reenter+f.Abort+f.Goexit == 0
	zzsim.SetMapSalt(c.MapSalt)


	var ref, sh *World
	var wantRaw, gotRaw [][]lazyOut
	var solo uint64
	var st zzsim.Stats
	raceBefore := raceLogSize()

	reference := func() {
		key := c
		if c.refOf != nil {
			key = c.refOf
		}
		if refCache.c == key && !c.ConcFirst {
			ref, wantRaw, solo = refCache.ref, refCache.want, refCache.solo
			res.SoloSteps = solo
			return
		}
		defer func() { refCache.c, refCache.ref, refCache.want, refCache.solo = key, ref, wantRaw, solo }()
		// "The same call run alone": every task's program is executed by itself
		// on a world of its own (parsed afresh), with pools that retain nothing,
		// so that nothing one task leaves behind — in the tree, in a lock, in a
		// pool — can reach another task's reference outcome.
		zzsim.SetMode(zzsim.ModeOff)
		zzsim.SetPoolDrop(true)
		ref = buildWorld(c, nil, true)
		wantRaw = newRaw(c)
		for t := range c.Tasks {
			w := ref
			if t > 0 {
				w = buildWorld(c, ref.cat, true)
			}
			w.rs.solo = true
			w.rs.soloTask = t
			// Run it under the simulator as a single task: nothing can preempt
			// it, but a lock it left held (an unlock skipped on a panic or
			// Goexit path) is then noticed as a deadlock or lock-discipline
			// failure instead of hanging the process on the real mutex.
			prog := w.program(t, wantRaw)
			InReference = true
			st1 := zzsim.Run(zzsim.Config{Strategy: zzsim.StratReplay, Budget: 1 << 32}, []func(){func() { remap(t); prog() }})
			InReference = false
			solo += st1.Steps
		}
		res.SoloSteps = solo
	}
	concurrent := func(cat *catalog, est uint64) {
		zzsim.SetMode(zzsim.ModeOff)
		zzsim.SetPoolDrop(!c.PoolsRetain)
		if c.PoolsRetain {
			// start from empty pools whatever this process ran before (two
			// collections empty a pool: primary to victim cache, victim to
			// nothing), and keep the collector from emptying them at a moment of
			// its own choosing during the run
			runtime.GC()
			runtime.GC()
			defer debug.SetGCPercent(debug.SetGCPercent(-1))
		}
		sh = buildWorld(c, cat, c.Pretouch)
		gotRaw = newRaw(c)
		fns := make([]func(), len(c.Tasks))
		var wg sync.WaitGroup
		for t := range c.Tasks {
			prog := sh.program(t, gotRaw)
			wg.Add(1)
			fns[t] = func() {
				defer wg.Done()
				prog()
			}
		}
		cfg := schedConfig(c, est)
		st = zzsim.Run(cfg, fns)
		wg.Wait()
		res.Stats = st
	}

	if c.ConcFirst {
		// simulated concurrent phase first: nothing in this process has used
		// the library's process-global state for these operations yet
		concurrent(emptyCatalog, 40000)
		reference()
	} else {
		reference()
		concurrent(ref.cat, solo)
	}
	if sh.setupDiag != ref.setupDiag {
		res.Verdict = "internal"
		res.Detail = "setup diagnostics differ between two parses of the same sources"
		return res
	}

	// ---- oracle ----
	want, got := render(wantRaw), render(gotRaw)
	h := uint64(0xcbf29ce484222325)
	for t := range want {
		for i := range want[t] {
			res.NOps++
			res.OpKinds[c.Tasks[t].Ops[i].Kind]++
			h = (h ^ strHash(want[t][i])) * 0x100000001b3
			if strings.Contains(want[t][i], "!sev=") {
				res.ErrOps++
			}
			if dumpOutcomes {
				fmt.Fprintf(os.Stderr, "OUTCOME t%d op%d %s\n", t, i, got[t][i])
			}
			if want[t][i] != got[t][i] && res.Verdict == "ok" {
				res.Verdict = "mismatch"
				res.Task, res.Op = t, i
				res.Expected, res.Actual, res.DiffAt = diffWindow(want[t][i], got[t][i])
				res.Detail = "op " + c.Tasks[t].Ops[i].Kind + " returned something else than when run alone"
			}
		}
	}
	res.OutHash = h
	for t := range c.Tasks {
		for k, n := range faultNames {
			a, b := ref.rs.pt[t].fired[k], sh.rs.pt[t].fired[k]
			res.Fired[n] += b
			_ = a
		}
		for k, n := range probeNames {
			res.Probes[n] += sh.rs.pt[t].probes[k]
		}
	}
	if raceLogSize() != raceBefore && res.Verdict == "ok" {
		res.Verdict = "race"
		res.Detail = "the Go race detector reported a data race during the simulated phase"
	}
	if st.Foreign > 0 {
		res.Probes["foreign_goroutine_yields"] = st.Foreign
	}
	return res
}

// dumpOutcomes (C17_DUMP=1) prints every op outcome of the concurrent run to
// stderr: a debugging aid for looking at what new ops return.
var dumpOutcomes = os.Getenv("C17_DUMP") != ""

// Progress, if set, is called now and then during a long search inside one
// case, so that the orchestrator's watchdog sees the worker is alive.
var Progress func(n int)

// InReference is true while a task's sequential reference is being computed.
var InReference bool

// remap tells the world which task the single simulated task stands for.
func remap(t int) {}

// refCache keeps the sequential reference of the case executed last, for the
// bounded systematic search that runs one case under many schedules.
var refCache struct {
	c    *Case
	ref  *World
	want [][]lazyOut
	solo uint64
}

// runPB1 executes a case under every schedule with exactly one preemption:
// start with task t, preempt it at its k-th decision point, run task u (and
// then everybody else) to completion, resume t.  It returns the number of
// schedules run and the first failing result, if any.
func runPB1(c *Case, maxRuns int) (int, *Result) {
	base := *c
	base.Sched = SchedM{Strategy: "replay", Seed: c.Sched.Seed}
	base.ConcFirst = false
	base.refOf = c
	first := base
	first.Sched.Replay = []zzsim.Switch{{From: -1, To: 0}}
	r0 := runCase(&first)
	if r0.Verdict != "ok" {
		return 1, r0
	}
	n := 1
	lm := r0.Stats.LocalMax
	for t := range c.Tasks {
		for o := range c.Tasks[t].Ops {
			if o >= 8 {
				break
			}
			for k := uint64(1); k <= lm[t][o]; k++ {
				for u := range c.Tasks {
					if u == t {
						continue
					}
					if n >= maxRuns {
						return n, nil
					}
					cc := base
					cc.Sched.Replay = []zzsim.Switch{{From: -1, To: t}, {From: t, Op: int32(o), Local: k, To: u}}
					r := runCase(&cc)
					n++
					if n%200 == 0 && Progress != nil {
						Progress(n)
					}
					if r.Verdict != "ok" {
						r.Stats.Schedule = cc.Sched.Replay
						return n, r
					}
				}
			}
		}
	}
	return n, nil
}

// runPB2 is the two-preemption companion of runPB1: task t runs up to one of
// its boosted decision points (a lock, atomic, pool or callback boundary),
// task u then runs up to one of its own, t resumes and finishes, u finishes.
// All pairs of boosted points of all ordered task pairs are enumerated; when
// there are more than maxRuns of them a seed-determined sample of that size is
// taken (a stride through the enumeration, so that early and late points are
// represented alike).
func runPB2(c *Case, maxRuns int) (int, *Result) {
	base := *c
	base.Sched = SchedM{Strategy: "replay", Seed: c.Sched.Seed}
	base.ConcFirst = false
	base.refOf = c
	// the boosted points of every task, from runs in which that task goes first
	pts := make([][]zzsim.BoostPt, len(c.Tasks))
	n := 0
	for t := range c.Tasks {
		first := base
		first.recordBoosted = true
		first.Sched.Replay = []zzsim.Switch{{From: -1, To: t}}
		r0 := runCase(&first)
		n++
		if r0.Verdict != "ok" {
			r0.Stats.Schedule = first.Sched.Replay
			r0.Stats.BoostedPts = nil
			return n, r0
		}
		for _, p := range r0.Stats.BoostedPts {
			if int(p.Task) == t {
				pts[t] = append(pts[t], p)
			}
		}
	}
	type pair struct{ t, u, a, b int }
	var all []pair
	for t := range c.Tasks {
		for u := range c.Tasks {
			if u == t {
				continue
			}
			for a := range pts[t] {
				for b := range pts[u] {
					all = append(all, pair{t, u, a, b})
				}
			}
		}
	}
	if len(all) == 0 {
		return n, nil
	}
	budget := maxRuns - n
	if budget < 1 {
		budget = 1
	}
	stride, off := 1, 0
	if len(all) > budget {
		stride = (len(all) + budget - 1) / budget
		off = int(zzsim.Mix(c.Sched.Seed, 0x9b2) % uint64(stride))
	}
	for i := off; i < len(all); i += stride {
		q := all[i]
		pa, pb := pts[q.t][q.a], pts[q.u][q.b]
		cc := base
		cc.Sched.Replay = []zzsim.Switch{{From: -1, To: q.t},
			{From: q.t, Op: pa.Op, Local: pa.Local, To: q.u},
			{From: q.u, Op: pb.Op, Local: pb.Local, To: q.t}}
		r := runCase(&cc)
		n++
		if n%200 == 0 && Progress != nil {
			Progress(n)
		}
		if r.Verdict != "ok" {
			r.Stats.Schedule = cc.Sched.Replay
			return n, r
		}
	}
	return n, nil
}

// diffWindow cuts both outcomes down to the neighbourhood of their first
// difference.
func diffWindow(a, b string) (string, string, int) {
	i := 0
	for i < len(a) && i < len(b) && a[i] == b[i] {
		i++
	}
	cut := func(s string) string {
		lo, hi := i-300, i+500
		pre, post := "", ""
		if lo < 0 {
			lo = 0
		} else {
			pre = "…"
		}
		if hi > len(s) {
			hi = len(s)
		} else {
			post = "…"
		}
		if len(s) <= 1200 {
			return s
		}
		return pre + s[lo:hi] + post
	}
	return cut(a), cut(b), i
}
