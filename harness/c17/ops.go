package main

import (
	"fmt"
	"regexp"
	"sort"
	"strings"

	"github.com/hashicorp/hcl/v2"
	"github.com/hashicorp/hcl/v2/ext/dynblock"
	"github.com/hashicorp/hcl/v2/ext/typeexpr"
	"github.com/hashicorp/hcl/v2/gohcl"
	"github.com/hashicorp/hcl/v2/hcldec"
	"github.com/hashicorp/hcl/v2/hclsyntax"
	"github.com/hashicorp/hcl/v2/zzsim"
	"github.com/zclconf/go-cty/cty"
	"github.com/zclconf/go-cty/cty/convert"
)

// The own* helpers make the harness behave like an ordinary caller that treats
// what an API call returned as its own: they take a private copy of the
// container for rendering and then modify the returned container itself
// (append within capacity, reorder, delete and insert).  If a returned slice or
// map aliases state that other callers also receive, the race detector and the
// comparison with the sequential reference see it.  Only containers are
// touched, never what their elements point to (a diagnostic's Subject may point
// into the shared tree by design).
func ownD(d hcl.Diagnostics) hcl.Diagnostics {
	cp := append(hcl.Diagnostics(nil), d...)
	if len(d) > 1 {
		d[0], d[len(d)-1] = d[len(d)-1], d[0]
	}
	if cap(d) > len(d) {
		_ = append(d, &hcl.Diagnostic{Severity: hcl.DiagWarning, Summary: "caller's own diagnostic"})
	}
	return cp
}

func ownT(tv []hcl.Traversal) []hcl.Traversal {
	cp := append([]hcl.Traversal(nil), tv...)
	for i, j := 0, len(tv)-1; i < j; i, j = i+1, j-1 {
		tv[i], tv[j] = tv[j], tv[i]
	}
	if cap(tv) > len(tv) {
		_ = append(tv, hcl.Traversal{hcl.TraverseRoot{Name: "callers_own"}})
	}
	return cp
}

// useT is what an application does with the references variable analysis
// hands back: it derives its own references from them with hcl's traversal
// helpers (a per-task step joined on, split and re-joined), never writing
// through the returned traversals itself.  The derived traversals are part of
// the op's outcome.
func useT(t int, tv []hcl.Traversal) []hcl.Traversal {
	var out []hcl.Traversal
	own := hcl.Traversal{hcl.TraverseAttr{Name: "task" + itoa(t)}, hcl.TraverseIndex{Key: cty.NumberIntVal(int64(1000 * t))}}
	for i, tr := range tv {
		if len(tr) == 0 || tr.IsRelative() {
			continue
		}
		j := hcl.TraversalJoin(tr, own)
		out = append(out, j)
		sp := tr.SimpleSplit()
		out = append(out, sp.Join())
		if len(sp.Abs) > 0 && !sp.Abs.IsRelative() {
			out = append(out, hcl.TraversalJoin(sp.Abs, own))
		}
		if i >= 6 {
			break
		}
	}
	return out
}

func ownA(a hcl.Attributes) hcl.Attributes {
	if a == nil {
		return nil
	}
	cp := make(hcl.Attributes, len(a))
	var first string
	for k, v := range a {
		// the structs a call hands back are the caller's as well: render from
		// a copy, then overwrite the returned struct's own fields (never what
		// they point to)
		if v != nil {
			c := *v
			cp[k] = &c
			v.Name = "callers_own"
			v.Expr = noExpr
			v.Range, v.NameRange = hcl.Range{}, hcl.Range{}
		} else {
			cp[k] = v
		}
		if first == "" || k < first {
			first = k
		}
	}
	if first != "" {
		delete(a, first)
	}
	a["callers_own"] = &hcl.Attribute{Name: "callers_own", Expr: noExpr}
	return cp
}

func ownC(c *hcl.BodyContent) *hcl.BodyContent {
	if c == nil {
		return nil
	}
	cp := &hcl.BodyContent{Attributes: ownA(c.Attributes), MissingItemRange: c.MissingItemRange}
	for _, bl := range c.Blocks {
		if bl == nil {
			cp.Blocks = append(cp.Blocks, nil)
			continue
		}
		b := *bl
		cp.Blocks = append(cp.Blocks, &b)
		// e.g. a caller that wraps the block's body for its own evaluation
		bl.Body = hcl.EmptyBody()
		bl.Type = "callers_own"
		bl.Labels, bl.LabelRanges = nil, nil
		bl.DefRange, bl.TypeRange = hcl.Range{}, hcl.Range{}
	}
	for i, j := 0, len(c.Blocks)-1; i < j; i, j = i+1, j-1 {
		c.Blocks[i], c.Blocks[j] = c.Blocks[j], c.Blocks[i]
	}
	return cp
}

// ownSchema renders a schema a call returned and then extends it, as a caller
// does that adds its own arguments to what a struct implies.
func ownSchema(s *hcl.BodySchema) func() string {
	if s == nil {
		return func() string { return "nil-schema" }
	}
	cp := hcl.BodySchema{Attributes: append([]hcl.AttributeSchema(nil), s.Attributes...), Blocks: append([]hcl.BlockHeaderSchema(nil), s.Blocks...)}
	s.Attributes = append(s.Attributes, hcl.AttributeSchema{Name: "callers_own"})
	s.Blocks = append(s.Blocks, hcl.BlockHeaderSchema{Type: "callers_own"})
	if len(s.Attributes) > 1 {
		s.Attributes[0] = hcl.AttributeSchema{Name: "callers_first", Required: true}
	}
	return func() string {
		var b strings.Builder
		for _, a := range cp.Attributes {
			fmt.Fprintf(&b, "%s/%v,", a.Name, a.Required)
		}
		b.WriteString("|")
		for _, x := range cp.Blocks {
			fmt.Fprintf(&b, "%s%v,", x.Type, x.LabelNames)
		}
		return b.String()
	}
}

var hexAddr = regexp.MustCompile(`0x[0-9a-fA-F]+`)

// Go structs for the reflection-driven decoder.
type gInner struct {
	R      *cty.Value `hcl:"r,optional"`
	Remain hcl.Body   `hcl:",remain"`
}

type gB0 struct {
	P      *cty.Value     `hcl:"p,optional"`
	Q      hcl.Expression `hcl:"q,optional"`
	Inner  []gInner       `hcl:"inner,block"`
	Remain hcl.Body       `hcl:",remain"`
}

type gB1 struct {
	Name   string     `hcl:"name,label"`
	P      *cty.Value `hcl:"p,optional"`
	Remain hcl.Body   `hcl:",remain"`
}

type gRoot struct {
	A0     *cty.Value     `hcl:"f0a0,optional"`
	A1     *cty.Value     `hcl:"f0a1,optional"`
	A2     hcl.Expression `hcl:"f1a0,optional"`
	B0     []gB0          `hcl:"b0,block"`
	B1     []gB1          `hcl:"b1,block"`
	Remain hcl.Body       `hcl:",remain"`
}

func dumpPtrVal(v *cty.Value) string {
	if v == nil {
		return "<unset>"
	}
	return dumpVal(*v)
}

func dumpExprRange(e hcl.Expression) string {
	if e == nil {
		return "<unset>"
	}
	return e.Range().String()
}

func dumpGRoot(g *gRoot, ra hcl.Attributes, rd hcl.Diagnostics) string {
	var b strings.Builder
	fmt.Fprintf(&b, "a0=%s a1=%s a2=%s", dumpPtrVal(g.A0), dumpPtrVal(g.A1), dumpExprRange(g.A2))
	for _, x := range g.B0 {
		fmt.Fprintf(&b, " b0{p=%s q=%s", dumpPtrVal(x.P), dumpExprRange(x.Q))
		for _, in := range x.Inner {
			fmt.Fprintf(&b, " inner{r=%s}", dumpPtrVal(in.R))
		}
		b.WriteString("}")
	}
	for _, x := range g.B1 {
		fmt.Fprintf(&b, " b1{%q p=%s}", x.Name, dumpPtrVal(x.P))
	}
	if g.Remain != nil {
		fmt.Fprintf(&b, " remain{%s !%s}", dumpAttrs(ra), dumpDiags(rd))
	}
	return b.String()
}

func dumpStatic(e hcl.Expression) string {
	var b strings.Builder
	if l, d := hcl.ExprList(e); !d.HasErrors() {
		fmt.Fprintf(&b, "list[%d]:", len(l))
		for _, x := range l {
			b.WriteString(x.Range().String() + ",")
		}
	} else {
		b.WriteString("list!" + dumpDiags(d))
	}
	if m, d := hcl.ExprMap(e); !d.HasErrors() {
		fmt.Fprintf(&b, " map[%d]:", len(m))
		for _, kv := range m {
			b.WriteString(kv.Key.Range().String() + "=>" + kv.Value.Range().String() + ",")
		}
	} else {
		b.WriteString(" map!" + dumpDiags(d))
	}
	if c, d := hcl.ExprCall(e); !d.HasErrors() {
		fmt.Fprintf(&b, " call %s(%d) %s", c.Name, len(c.Arguments), c.NameRange)
	} else {
		b.WriteString(" call!" + dumpDiags(d))
	}
	if t, d := hcl.AbsTraversalForExpr(e); !d.HasErrors() {
		b.WriteString(" abs " + dumpTraversals([]hcl.Traversal{t}))
	} else {
		b.WriteString(" abs!" + dumpDiags(d))
	}
	if t, d := hcl.RelTraversalForExpr(e); !d.HasErrors() {
		b.WriteString(" rel " + dumpTraversals([]hcl.Traversal{t}))
	} else {
		b.WriteString(" rel!" + dumpDiags(d))
	}
	b.WriteString(" kw=" + hcl.ExprAsKeyword(e))
	if u := hcl.UnwrapExpression(e); u != nil {
		b.WriteString(" unwrap=" + u.Range().String())
	}
	if n, ok := e.(hclsyntax.Node); ok {
		b.WriteString(" synvars=" + dumpTraversals(hclsyntax.Variables(n.(hclsyntax.Expression))))
	}
	if ty, d := typeexpr.TypeConstraint(e); !d.HasErrors() {
		b.WriteString(" type=" + ty.GoString())
	} else {
		b.WriteString(" type!" + dumpDiags(d))
	}
	return b.String()
}

func maskSchema(full *hcl.BodySchema, mask uint64) (sel, rest *hcl.BodySchema) {
	sel, rest = &hcl.BodySchema{}, &hcl.BodySchema{}
	i := uint(0)
	for _, a := range full.Attributes {
		if mask>>(i%64)&1 == 1 {
			sel.Attributes = append(sel.Attributes, a)
		} else {
			rest.Attributes = append(rest.Attributes, a)
		}
		i++
	}
	for _, b := range full.Blocks {
		if mask>>(i%64)&1 == 1 {
			sel.Blocks = append(sel.Blocks, b)
		} else {
			rest.Blocks = append(rest.Blocks, b)
		}
		i++
	}
	return
}

func dumpAttrs(attrs hcl.Attributes) string {
	names := make([]string, 0, len(attrs))
	for n := range attrs {
		names = append(names, n)
	}
	sort.Strings(names)
	var b strings.Builder
	for _, n := range names {
		a := attrs[n]
		fmt.Fprintf(&b, "attr %s=%s r=%s nr=%s er=%s;", n, a.Name, a.Range, a.NameRange, a.Expr.Range())
	}
	return b.String()
}

func dumpContent(c *hcl.BodyContent) string {
	if c == nil {
		return "nil-content"
	}
	var b strings.Builder
	b.WriteString(dumpAttrs(c.Attributes))
	for _, bl := range c.Blocks {
		fmt.Fprintf(&b, "block %s %q def=%s type=%s labels=%v;", bl.Type, bl.Labels, bl.DefRange, bl.TypeRange, bl.LabelRanges)
	}
	fmt.Fprintf(&b, "missing=%s", c.MissingItemRange)
	return b.String()
}

// execOp performs one public-API call and returns its complete outcome as a
// closure that renders it.  Rendering uses fmt and sorting, i.e. code with its
// own synchronisation; it is deferred until the simulated phase is over so
// that the tasks themselves execute nothing but the call under test.
func (w *World) execOp(t int, op OpM) (out func() string) {
	defer func() {
		if r := recover(); r != nil {
			// addresses in a panic message differ from run to run by nature
			out = func() string { return "PANIC: " + hexAddr.ReplaceAllString(fmt.Sprintf("%v", r), "0x?") }
		}
	}()
	ctx := w.taskCtx[t]
	root := func() hcl.Body { return w.rootTarget(op.Target) }
	switch op.Kind {
	case "value":
		e, name := w.expr(op.Expr)
		c := ctx
		if op.NilCtx {
			c = nil
			w.rs.pt[t].probes[pNilCtxSplat]++
		}
		v, d := e.Value(c)
		d = ownD(d)
		return func() string { return "value " + name + " = " + dumpVal(v) + " !" + dumpDiags(d) }
	case "variables":
		e, name := w.expr(op.Expr)
		tv := e.Variables()
		tv = ownT(tv)
		dv := useT(t, tv)
		return func() string {
			return "variables " + name + " = " + dumpTraversals(tv) + " derived " + dumpTraversals(dv)
		}
	case "content":
		be := w.body(op.Target)
		sel, _ := w.schemaFor(be.kind, op.Mask|op.Mask>>7)
		c, d := be.body.Content(sel)
		d = ownD(d)
		c = ownC(c)
		return func() string { return "content " + dumpContent(c) + " !" + dumpDiags(d) }
	case "partial":
		be := w.body(op.Target)
		sel, rest := w.schemaFor(be.kind, op.Mask)
		c, remain, d := be.body.PartialContent(sel)
		c2, d2 := remain.Content(rest)
		d = ownD(d)
		d2 = ownD(d2)
		c = ownC(c)
		c2 = ownC(c2)
		return func() string { return "partial " + dumpContent(c) + " !" + dumpDiags(d) + " || remain " + dumpContent(c2) + " !" + dumpDiags(d2) }
	case "just_attrs":
		be := w.body(op.Target)
		a, d := be.body.JustAttributes()
		d = ownD(d)
		a = ownA(a)
		return func() string { return "just_attrs " + dumpAttrs(a) + " !" + dumpDiags(d) }
	case "decode":
		v, d := hcldec.Decode(root(), w.spec, ctx)
		d = ownD(d)
		return func() string { return "decode " + dumpVal(v) + " !" + dumpDiags(d) }
	case "partial_decode":
		v, remain, d := hcldec.PartialDecode(root(), w.spec, ctx)
		a, d2 := remain.JustAttributes()
		d = ownD(d)
		d2 = ownD(d2)
		a = ownA(a)
		return func() string { return "partial_decode " + dumpVal(v) + " !" + dumpDiags(d) + " || remain " + dumpAttrs(a) + " !" + dumpDiags(d2) }
	case "expand_decode":
		var opts []dynblock.ExpandOption
		if op.Check {
			opts = append(opts, dynblock.OptCheckForEach(w.checkForEachCB()))
		}
		eb := dynblock.Expand(root(), ctx, opts...)
		v, d := hcldec.Decode(eb, w.spec, ctx)
		d = ownD(d)
		return func() string { return "expand_decode " + dumpVal(v) + " !" + dumpDiags(d) }
	case "shared_expand_decode":
		eb := w.expanded[op.Target%len(w.expanded)]
		v, d := hcldec.Decode(eb, w.spec, ctx)
		d = ownD(d)
		return func() string { return "shared_expand_decode " + dumpVal(v) + " !" + dumpDiags(d) }
	case "gen_decode":
		be, ok := w.genBody(op.Target)
		if !ok {
			return func() string { return "gen_decode: no generated blocks" }
		}
		v, d := hcldec.Decode(be.body, w.nested[be.kind], ctx)
		d = ownD(d)
		return func() string { return "gen_decode " + be.kind + " " + dumpVal(v) + " !" + dumpDiags(d) }
	case "dec_vars":
		tv := hcldec.Variables(root(), w.spec)
		tv = ownT(tv)
		dv := useT(t, tv)
		return func() string { return "dec_vars " + dumpTraversals(tv) + " derived " + dumpTraversals(dv) }
	case "expand_vars":
		tv1 := dynblock.VariablesHCLDec(root(), w.spec)
		tv2 := dynblock.ExpandVariablesHCLDec(root(), w.spec)
		tv1 = ownT(tv1)
		tv2 = ownT(tv2)
		dv := useT(t, tv2)
		return func() string {
			return "expand_vars " + dumpTraversals(tv1) + " | " + dumpTraversals(tv2) + " derived " + dumpTraversals(dv)
		}
	case "gohcl":
		var g gRoot
		sch := func() string { return "" }
		if op.Mask&3 == 0 {
			is, partial := gohcl.ImpliedBodySchema(&g)
			rs := ownSchema(is)
			sch = func() string { return fmt.Sprintf(" schema=%s partial=%v", rs(), partial) }
		}
		d := gohcl.DecodeBody(root(), ctx, &g)
		var ra hcl.Attributes
		var rd hcl.Diagnostics
		if g.Remain != nil {
			ra, rd = g.Remain.JustAttributes()
		}
		d = ownD(d)
		ra = ownA(ra)
		rd = ownD(rd)
		return func() string { return "gohcl " + dumpGRoot(&g, ra, rd) + " !" + dumpDiags(d) + sch() }
	case "gohcl_expr":
		e, name := w.expr(op.Expr)
		var v cty.Value
		d := gohcl.DecodeExpression(e, ctx, &v)
		d = ownD(d)
		return func() string { return "gohcl_expr " + name + " = " + dumpVal(v) + " !" + dumpDiags(d) }
	case "static":
		e, name := w.expr(op.Expr)
		st := dumpStatic(e) // static analysis calls are the ops here; they return plain data
		return func() string { return "static " + name + " " + st }
	case "merge_content":
		m := hcl.MergeBodies([]hcl.Body{w.rootTarget(op.Target), w.rootTarget(op.Expr)})
		sel, _ := w.schemaFor("root", op.Mask|op.Mask>>5|op.Mask>>11)
		c, rem, d := m.PartialContent(sel)
		a, d2 := rem.JustAttributes()
		d = ownD(d)
		d2 = ownD(d2)
		c = ownC(c)
		a = ownA(a)
		return func() string { return "merge_content " + dumpContent(c) + " !" + dumpDiags(d) + " || " + dumpAttrs(a) + " !" + dumpDiags(d2) }
	case "spec_misc":
		sch := hcldec.ImpliedSchema(w.spec)
		var b strings.Builder
		for _, a := range sch.Attributes {
			fmt.Fprintf(&b, "%s/%v,", a.Name, a.Required)
		}
		var bs []string
		for _, x := range sch.Blocks {
			bs = append(bs, fmt.Sprintf("%s%v", x.Type, x.LabelNames))
		}
		sort.Strings(bs)
		ct := hcldec.ChildBlockTypes(w.spec)
		var cts []string
		for k := range ct {
			cts = append(cts, k)
		}
		sort.Strings(cts)
		as := strings.Split(b.String(), ",")
		sort.Strings(as)
		sr := hcldec.SourceRange(root(), w.spec)
		return func() string {
			return "spec_misc attrs=" + strings.Join(as, ",") + " blocks=" + strings.Join(bs, ",") + " children=" + strings.Join(cts, ",") + " range=" + sr.String()
		}
	case "at_pos":
		// position look-ups on the shared file (hcl.File's *AtPos accessors)
		f := w.files[op.Target%(len(w.files)-1)]
		if op.Target>>8%8 == 0 {
			f = w.files[len(w.files)-1] // types.hcl
		}
		type res struct {
			pos        hcl.Pos
			blocks     []*hcl.Block
			outer, inn *hcl.Block
			expr       hcl.Expression
			attr       *hcl.Attribute
		}
		var rs []res
		for k := 0; k < 3; k++ {
			pos := posAt(f.Bytes, int(zzsim.Mix(op.Mask, uint64(k))%uint64(len(f.Bytes)+1)))
			rs = append(rs, res{pos, f.BlocksAtPos(pos), f.OutermostBlockAtPos(pos), f.InnermostBlockAtPos(pos), f.OutermostExprAtPos(pos), f.AttributeAtPos(pos)})
		}
		return func() string {
			var b strings.Builder
			b.WriteString("at_pos")
			blk := func(x *hcl.Block) string {
				if x == nil {
					return "-"
				}
				return fmt.Sprintf("%s%q@%s", x.Type, x.Labels, x.DefRange)
			}
			for _, r := range rs {
				fmt.Fprintf(&b, " [%d:", r.pos.Byte)
				for _, x := range r.blocks {
					b.WriteString(" " + blk(x))
				}
				fmt.Fprintf(&b, " outer=%s inner=%s", blk(r.outer), blk(r.inn))
				if r.expr != nil {
					fmt.Fprintf(&b, " expr=%s", r.expr.Range())
				}
				if r.attr != nil {
					fmt.Fprintf(&b, " attr=%s@%s", r.attr.Name, r.attr.Range)
				}
				b.WriteString("]")
			}
			return b.String()
		}
	case "type_defaults":
		// static analysis of a shared type-constraint expression, and use of
		// the shared Defaults object derived from it at set-up
		i := op.Target % len(w.typeExprs)
		ty, d := typeexpr.TypeConstraint(w.typeExprs[i])
		ty2, defs, d2 := typeexpr.TypeConstraintWithDefaults(w.typeExprs[i])
		in := defaultsInput(i, t, op.Mask)
		var viaShared, viaOwn cty.Value
		if w.defaults[i] != nil {
			viaShared = w.defaults[i].Apply(in)
		}
		if defs != nil {
			viaOwn = defs.Apply(in)
		}
		var conv cty.Value
		var cerr error
		if viaShared != cty.NilVal && !d2.HasErrors() {
			conv, cerr = convert.Convert(viaShared, w.typeTys[i])
		}
		d = ownD(d)
		d2 = ownD(d2)
		return func() string {
			return fmt.Sprintf("type_defaults t%d %s !%s | %s !%s | shared=%s own=%s conv=%s err=%v", i, ty.GoString(), dumpDiags(d), typeexpr.TypeString(ty2), dumpDiags(d2),
				dumpVal(viaShared), dumpVal(viaOwn), dumpVal(conv), cerr)
		}
	case "implied_type":
		ity := hcldec.ImpliedType(w.spec)
		return func() string { return "implied_type " + ity.GoString() }
	}
	return func() string { return "unknown op " + op.Kind }
}

// posAt converts a byte offset into a position.
func posAt(src []byte, off int) hcl.Pos {
	p := hcl.Pos{Line: 1, Column: 1, Byte: off}
	for _, c := range src[:off] {
		if c == '\n' {
			p.Line++
			p.Column = 1
		} else if c&0xC0 != 0x80 {
			p.Column++
		}
	}
	return p
}

// defaultsInput builds the value that task t passes to the defaults of type
// expression i; the mask selects which optional attributes are left out.
func defaultsInput(i, t int, mask uint64) cty.Value {
	tag := func(s string) cty.Value { return cty.StringVal(fmt.Sprintf("T%d-%s", t, s)) }
	bit := func(k uint) bool { return mask>>k&1 == 1 }
	obj := func(kv map[string]cty.Value) cty.Value {
		if len(kv) == 0 {
			return cty.EmptyObjectVal
		}
		return cty.ObjectVal(kv)
	}
	switch i {
	case 0:
		m := map[string]cty.Value{"v": tag("v")}
		if bit(0) {
			m["n"] = cty.NumberIntVal(int64(t))
		}
		if bit(1) {
			o := map[string]cty.Value{}
			if bit(2) {
				o["a"] = tag("a")
			}
			if bit(3) {
				o["l"] = cty.ListVal([]cty.Value{tag("l")})
			}
			m["o"] = obj(o)
		}
		if bit(4) {
			m["o"] = cty.NullVal(cty.DynamicPseudoType)
		}
		return obj(m)
	case 1:
		e0 := map[string]cty.Value{}
		if bit(0) {
			e0["v"] = tag("v")
		}
		if bit(1) {
			y := map[string]cty.Value{}
			if bit(2) {
				y["w"] = tag("w")
			}
			e0["ys"] = cty.TupleVal([]cty.Value{obj(y), cty.EmptyObjectVal})
		}
		if bit(3) {
			return cty.UnknownVal(cty.List(cty.EmptyObject))
		}
		return cty.TupleVal([]cty.Value{obj(e0), cty.EmptyObjectVal})
	case 2:
		e := map[string]cty.Value{}
		if bit(0) {
			e["a"] = cty.TupleVal([]cty.Value{tag("a"), cty.NumberIntVal(int64(t))})
		}
		if bit(1) {
			e["b"] = cty.SetVal([]cty.Value{tag("b")})
		}
		if bit(2) {
			e["c"] = cty.ObjectVal(map[string]cty.Value{"k": cty.EmptyObjectVal})
		}
		return cty.ObjectVal(map[string]cty.Value{"one": obj(e), "two": cty.EmptyObjectVal})
	case 3:
		m := map[string]cty.Value{}
		if bit(0) {
			p := map[string]cty.Value{}
			if bit(1) {
				p["q"] = cty.EmptyObjectVal
			}
			m["p"] = obj(p)
		}
		if bit(2) {
			m["s"] = cty.TupleVal([]cty.Value{cty.EmptyObjectVal, cty.ObjectVal(map[string]cty.Value{"t": cty.NumberIntVal(int64(t))})})
		}
		if bit(3) {
			return cty.ObjectVal(m).Mark("m")
		}
		return obj(m)
	case 4:
		return cty.TupleVal([]cty.Value{tag("x"), tag("y")})
	case 5:
		z := map[string]cty.Value{}
		if bit(0) {
			z["z"] = tag("z")
		}
		return cty.TupleVal([]cty.Value{tag("s"), obj(z)})
	case 7:
		e := map[string]cty.Value{}
		if bit(0) {
			e["u"] = tag("u")
		}
		return cty.TupleVal([]cty.Value{obj(e), cty.ObjectVal(map[string]cty.Value{"w": cty.ListVal([]cty.Value{tag("w")})})})
	}
	return cty.ObjectVal(map[string]cty.Value{"bad": tag("bad")})
}
