package main

import (
	"fmt"
	"regexp"
	"sort"
	"strings"

	"github.com/hashicorp/hcl/v2"
	"github.com/hashicorp/hcl/v2/ext/dynblock"
	"github.com/hashicorp/hcl/v2/ext/typeexpr"
	"github.com/hashicorp/hcl/v2/gohcl"
	"github.com/hashicorp/hcl/v2/hcldec"
	"github.com/hashicorp/hcl/v2/hclsyntax"
	"github.com/zclconf/go-cty/cty"
)

// The own* helpers make the harness behave like an ordinary caller that treats
// what an API call returned as its own: they take a private copy of the
// container for rendering and then modify the returned container itself
// (append within capacity, reorder, delete and insert).  If a returned slice or
// map aliases state that other callers also receive, the race detector and the
// comparison with the sequential reference see it.  Only containers are
// touched, never what their elements point to (a diagnostic's Subject may point
// into the shared tree by design).
func ownD(d hcl.Diagnostics) hcl.Diagnostics {
	cp := append(hcl.Diagnostics(nil), d...)
	if len(d) > 1 {
		d[0], d[len(d)-1] = d[len(d)-1], d[0]
	}
	if cap(d) > len(d) {
		_ = append(d, &hcl.Diagnostic{Severity: hcl.DiagWarning, Summary: "caller's own diagnostic"})
	}
	return cp
}

func ownT(tv []hcl.Traversal) []hcl.Traversal {
	cp := append([]hcl.Traversal(nil), tv...)
	for i, j := 0, len(tv)-1; i < j; i, j = i+1, j-1 {
		tv[i], tv[j] = tv[j], tv[i]
	}
	if cap(tv) > len(tv) {
		_ = append(tv, hcl.Traversal{hcl.TraverseRoot{Name: "callers_own"}})
	}
	return cp
}

func ownA(a hcl.Attributes) hcl.Attributes {
	if a == nil {
		return nil
	}
	cp := make(hcl.Attributes, len(a))
	var first string
	for k, v := range a {
		cp[k] = v
		if first == "" || k < first {
			first = k
		}
	}
	if first != "" {
		delete(a, first)
	}
	a["callers_own"] = &hcl.Attribute{Name: "callers_own", Expr: noExpr}
	return cp
}

func ownC(c *hcl.BodyContent) *hcl.BodyContent {
	if c == nil {
		return nil
	}
	cp := &hcl.BodyContent{Attributes: ownA(c.Attributes), Blocks: append(hcl.Blocks(nil), c.Blocks...), MissingItemRange: c.MissingItemRange}
	for i, j := 0, len(c.Blocks)-1; i < j; i, j = i+1, j-1 {
		c.Blocks[i], c.Blocks[j] = c.Blocks[j], c.Blocks[i]
	}
	return cp
}

var hexAddr = regexp.MustCompile(`0x[0-9a-fA-F]+`)

// Go structs for the reflection-driven decoder.
type gInner struct {
	R      *cty.Value `hcl:"r,optional"`
	Remain hcl.Body   `hcl:",remain"`
}

type gB0 struct {
	P      *cty.Value     `hcl:"p,optional"`
	Q      hcl.Expression `hcl:"q,optional"`
	Inner  []gInner       `hcl:"inner,block"`
	Remain hcl.Body       `hcl:",remain"`
}

type gB1 struct {
	Name   string     `hcl:"name,label"`
	P      *cty.Value `hcl:"p,optional"`
	Remain hcl.Body   `hcl:",remain"`
}

type gRoot struct {
	A0     *cty.Value     `hcl:"f0a0,optional"`
	A1     *cty.Value     `hcl:"f0a1,optional"`
	A2     hcl.Expression `hcl:"f1a0,optional"`
	B0     []gB0          `hcl:"b0,block"`
	B1     []gB1          `hcl:"b1,block"`
	Remain hcl.Body       `hcl:",remain"`
}

func dumpPtrVal(v *cty.Value) string {
	if v == nil {
		return "<unset>"
	}
	return dumpVal(*v)
}

func dumpExprRange(e hcl.Expression) string {
	if e == nil {
		return "<unset>"
	}
	return e.Range().String()
}

func dumpGRoot(g *gRoot, ra hcl.Attributes, rd hcl.Diagnostics) string {
	var b strings.Builder
	fmt.Fprintf(&b, "a0=%s a1=%s a2=%s", dumpPtrVal(g.A0), dumpPtrVal(g.A1), dumpExprRange(g.A2))
	for _, x := range g.B0 {
		fmt.Fprintf(&b, " b0{p=%s q=%s", dumpPtrVal(x.P), dumpExprRange(x.Q))
		for _, in := range x.Inner {
			fmt.Fprintf(&b, " inner{r=%s}", dumpPtrVal(in.R))
		}
		b.WriteString("}")
	}
	for _, x := range g.B1 {
		fmt.Fprintf(&b, " b1{%q p=%s}", x.Name, dumpPtrVal(x.P))
	}
	if g.Remain != nil {
		fmt.Fprintf(&b, " remain{%s !%s}", dumpAttrs(ra), dumpDiags(rd))
	}
	return b.String()
}

func dumpStatic(e hcl.Expression) string {
	var b strings.Builder
	if l, d := hcl.ExprList(e); !d.HasErrors() {
		fmt.Fprintf(&b, "list[%d]:", len(l))
		for _, x := range l {
			b.WriteString(x.Range().String() + ",")
		}
	} else {
		b.WriteString("list!" + dumpDiags(d))
	}
	if m, d := hcl.ExprMap(e); !d.HasErrors() {
		fmt.Fprintf(&b, " map[%d]:", len(m))
		for _, kv := range m {
			b.WriteString(kv.Key.Range().String() + "=>" + kv.Value.Range().String() + ",")
		}
	} else {
		b.WriteString(" map!" + dumpDiags(d))
	}
	if c, d := hcl.ExprCall(e); !d.HasErrors() {
		fmt.Fprintf(&b, " call %s(%d) %s", c.Name, len(c.Arguments), c.NameRange)
	} else {
		b.WriteString(" call!" + dumpDiags(d))
	}
	if t, d := hcl.AbsTraversalForExpr(e); !d.HasErrors() {
		b.WriteString(" abs " + dumpTraversals([]hcl.Traversal{t}))
	} else {
		b.WriteString(" abs!" + dumpDiags(d))
	}
	if t, d := hcl.RelTraversalForExpr(e); !d.HasErrors() {
		b.WriteString(" rel " + dumpTraversals([]hcl.Traversal{t}))
	} else {
		b.WriteString(" rel!" + dumpDiags(d))
	}
	b.WriteString(" kw=" + hcl.ExprAsKeyword(e))
	if u := hcl.UnwrapExpression(e); u != nil {
		b.WriteString(" unwrap=" + u.Range().String())
	}
	if n, ok := e.(hclsyntax.Node); ok {
		b.WriteString(" synvars=" + dumpTraversals(hclsyntax.Variables(n.(hclsyntax.Expression))))
	}
	if ty, d := typeexpr.TypeConstraint(e); !d.HasErrors() {
		b.WriteString(" type=" + ty.GoString())
	} else {
		b.WriteString(" type!" + dumpDiags(d))
	}
	return b.String()
}

func maskSchema(full *hcl.BodySchema, mask uint64) (sel, rest *hcl.BodySchema) {
	sel, rest = &hcl.BodySchema{}, &hcl.BodySchema{}
	i := uint(0)
	for _, a := range full.Attributes {
		if mask>>(i%64)&1 == 1 {
			sel.Attributes = append(sel.Attributes, a)
		} else {
			rest.Attributes = append(rest.Attributes, a)
		}
		i++
	}
	for _, b := range full.Blocks {
		if mask>>(i%64)&1 == 1 {
			sel.Blocks = append(sel.Blocks, b)
		} else {
			rest.Blocks = append(rest.Blocks, b)
		}
		i++
	}
	return
}

func dumpAttrs(attrs hcl.Attributes) string {
	names := make([]string, 0, len(attrs))
	for n := range attrs {
		names = append(names, n)
	}
	sort.Strings(names)
	var b strings.Builder
	for _, n := range names {
		a := attrs[n]
		fmt.Fprintf(&b, "attr %s=%s r=%s nr=%s er=%s;", n, a.Name, a.Range, a.NameRange, a.Expr.Range())
	}
	return b.String()
}

func dumpContent(c *hcl.BodyContent) string {
	if c == nil {
		return "nil-content"
	}
	var b strings.Builder
	b.WriteString(dumpAttrs(c.Attributes))
	for _, bl := range c.Blocks {
		fmt.Fprintf(&b, "block %s %q def=%s type=%s labels=%v;", bl.Type, bl.Labels, bl.DefRange, bl.TypeRange, bl.LabelRanges)
	}
	fmt.Fprintf(&b, "missing=%s", c.MissingItemRange)
	return b.String()
}

// execOp performs one public-API call and returns its complete outcome as a
// closure that renders it.  Rendering uses fmt and sorting, i.e. code with its
// own synchronisation; it is deferred until the simulated phase is over so
// that the tasks themselves execute nothing but the call under test.
func (w *World) execOp(t int, op OpM) (out func() string) {
	defer func() {
		if r := recover(); r != nil {
			// addresses in a panic message differ from run to run by nature
			out = func() string { return "PANIC: " + hexAddr.ReplaceAllString(fmt.Sprintf("%v", r), "0x?") }
		}
	}()
	ctx := w.taskCtx[t]
	root := func() hcl.Body { return w.rootTarget(op.Target) }
	switch op.Kind {
	case "value":
		e, name := w.expr(op.Expr)
		c := ctx
		if op.NilCtx {
			c = nil
			w.rs.pt[t].probes[pNilCtxSplat]++
		}
		v, d := e.Value(c)
		d = ownD(d)
		return func() string { return "value " + name + " = " + dumpVal(v) + " !" + dumpDiags(d) }
	case "variables":
		e, name := w.expr(op.Expr)
		tv := e.Variables()
		tv = ownT(tv)
		return func() string { return "variables " + name + " = " + dumpTraversals(tv) }
	case "content":
		be := w.body(op.Target)
		sel, _ := w.schemaFor(be.kind, op.Mask|op.Mask>>7)
		c, d := be.body.Content(sel)
		d = ownD(d)
		c = ownC(c)
		return func() string { return "content " + dumpContent(c) + " !" + dumpDiags(d) }
	case "partial":
		be := w.body(op.Target)
		sel, rest := w.schemaFor(be.kind, op.Mask)
		c, remain, d := be.body.PartialContent(sel)
		c2, d2 := remain.Content(rest)
		d = ownD(d)
		d2 = ownD(d2)
		c = ownC(c)
		c2 = ownC(c2)
		return func() string { return "partial " + dumpContent(c) + " !" + dumpDiags(d) + " || remain " + dumpContent(c2) + " !" + dumpDiags(d2) }
	case "just_attrs":
		be := w.body(op.Target)
		a, d := be.body.JustAttributes()
		d = ownD(d)
		a = ownA(a)
		return func() string { return "just_attrs " + dumpAttrs(a) + " !" + dumpDiags(d) }
	case "decode":
		v, d := hcldec.Decode(root(), w.spec, ctx)
		d = ownD(d)
		return func() string { return "decode " + dumpVal(v) + " !" + dumpDiags(d) }
	case "partial_decode":
		v, remain, d := hcldec.PartialDecode(root(), w.spec, ctx)
		a, d2 := remain.JustAttributes()
		d = ownD(d)
		d2 = ownD(d2)
		a = ownA(a)
		return func() string { return "partial_decode " + dumpVal(v) + " !" + dumpDiags(d) + " || remain " + dumpAttrs(a) + " !" + dumpDiags(d2) }
	case "expand_decode":
		var opts []dynblock.ExpandOption
		if op.Check {
			opts = append(opts, dynblock.OptCheckForEach(w.checkForEachCB()))
		}
		eb := dynblock.Expand(root(), ctx, opts...)
		v, d := hcldec.Decode(eb, w.spec, ctx)
		d = ownD(d)
		return func() string { return "expand_decode " + dumpVal(v) + " !" + dumpDiags(d) }
	case "shared_expand_decode":
		eb := w.expanded[op.Target%len(w.expanded)]
		v, d := hcldec.Decode(eb, w.spec, ctx)
		d = ownD(d)
		return func() string { return "shared_expand_decode " + dumpVal(v) + " !" + dumpDiags(d) }
	case "gen_decode":
		be, ok := w.genBody(op.Target)
		if !ok {
			return func() string { return "gen_decode: no generated blocks" }
		}
		v, d := hcldec.Decode(be.body, w.nested[be.kind], ctx)
		d = ownD(d)
		return func() string { return "gen_decode " + be.kind + " " + dumpVal(v) + " !" + dumpDiags(d) }
	case "dec_vars":
		tv := hcldec.Variables(root(), w.spec)
		tv = ownT(tv)
		return func() string { return "dec_vars " + dumpTraversals(tv) }
	case "expand_vars":
		tv1 := dynblock.VariablesHCLDec(root(), w.spec)
		tv2 := dynblock.ExpandVariablesHCLDec(root(), w.spec)
		tv1 = ownT(tv1)
		tv2 = ownT(tv2)
		return func() string { return "expand_vars " + dumpTraversals(tv1) + " | " + dumpTraversals(tv2) }
	case "gohcl":
		var g gRoot
		d := gohcl.DecodeBody(root(), ctx, &g)
		var ra hcl.Attributes
		var rd hcl.Diagnostics
		if g.Remain != nil {
			ra, rd = g.Remain.JustAttributes()
		}
		d = ownD(d)
		ra = ownA(ra)
		rd = ownD(rd)
		return func() string { return "gohcl " + dumpGRoot(&g, ra, rd) + " !" + dumpDiags(d) }
	case "gohcl_expr":
		e, name := w.expr(op.Expr)
		var v cty.Value
		d := gohcl.DecodeExpression(e, ctx, &v)
		d = ownD(d)
		return func() string { return "gohcl_expr " + name + " = " + dumpVal(v) + " !" + dumpDiags(d) }
	case "static":
		e, name := w.expr(op.Expr)
		st := dumpStatic(e) // static analysis calls are the ops here; they return plain data
		return func() string { return "static " + name + " " + st }
	case "merge_content":
		m := hcl.MergeBodies([]hcl.Body{w.rootTarget(op.Target), w.rootTarget(op.Expr)})
		sel, _ := w.schemaFor("root", op.Mask|op.Mask>>5|op.Mask>>11)
		c, rem, d := m.PartialContent(sel)
		a, d2 := rem.JustAttributes()
		d = ownD(d)
		d2 = ownD(d2)
		c = ownC(c)
		a = ownA(a)
		return func() string { return "merge_content " + dumpContent(c) + " !" + dumpDiags(d) + " || " + dumpAttrs(a) + " !" + dumpDiags(d2) }
	case "spec_misc":
		sch := hcldec.ImpliedSchema(w.spec)
		var b strings.Builder
		for _, a := range sch.Attributes {
			fmt.Fprintf(&b, "%s/%v,", a.Name, a.Required)
		}
		var bs []string
		for _, x := range sch.Blocks {
			bs = append(bs, fmt.Sprintf("%s%v", x.Type, x.LabelNames))
		}
		sort.Strings(bs)
		ct := hcldec.ChildBlockTypes(w.spec)
		var cts []string
		for k := range ct {
			cts = append(cts, k)
		}
		sort.Strings(cts)
		as := strings.Split(b.String(), ",")
		sort.Strings(as)
		sr := hcldec.SourceRange(root(), w.spec)
		return func() string {
			return "spec_misc attrs=" + strings.Join(as, ",") + " blocks=" + strings.Join(bs, ",") + " children=" + strings.Join(cts, ",") + " range=" + sr.String()
		}
	case "implied_type":
		ity := hcldec.ImpliedType(w.spec)
		return func() string { return "implied_type " + ity.GoString() }
	}
	return func() string { return "unknown op " + op.Kind }
}
