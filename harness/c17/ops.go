package main

import (
	"fmt"
	"sort"
	"strings"

	"github.com/hashicorp/hcl/v2"
	"github.com/hashicorp/hcl/v2/ext/dynblock"
	"github.com/hashicorp/hcl/v2/hcldec"
)

func maskSchema(full *hcl.BodySchema, mask uint64) (sel, rest *hcl.BodySchema) {
	sel, rest = &hcl.BodySchema{}, &hcl.BodySchema{}
	i := uint(0)
	for _, a := range full.Attributes {
		if mask>>(i%64)&1 == 1 {
			sel.Attributes = append(sel.Attributes, a)
		} else {
			rest.Attributes = append(rest.Attributes, a)
		}
		i++
	}
	for _, b := range full.Blocks {
		if mask>>(i%64)&1 == 1 {
			sel.Blocks = append(sel.Blocks, b)
		} else {
			rest.Blocks = append(rest.Blocks, b)
		}
		i++
	}
	return
}

func dumpAttrs(attrs hcl.Attributes) string {
	names := make([]string, 0, len(attrs))
	for n := range attrs {
		names = append(names, n)
	}
	sort.Strings(names)
	var b strings.Builder
	for _, n := range names {
		a := attrs[n]
		fmt.Fprintf(&b, "attr %s=%s r=%s nr=%s er=%s;", n, a.Name, a.Range, a.NameRange, a.Expr.Range())
	}
	return b.String()
}

func dumpContent(c *hcl.BodyContent) string {
	if c == nil {
		return "nil-content"
	}
	var b strings.Builder
	b.WriteString(dumpAttrs(c.Attributes))
	for _, bl := range c.Blocks {
		fmt.Fprintf(&b, "block %s %q def=%s type=%s labels=%v;", bl.Type, bl.Labels, bl.DefRange, bl.TypeRange, bl.LabelRanges)
	}
	fmt.Fprintf(&b, "missing=%s", c.MissingItemRange)
	return b.String()
}

// execOp performs one public-API call and renders its complete outcome.
func (w *World) execOp(t int, op OpM) (out string) {
	defer func() {
		if r := recover(); r != nil {
			out = fmt.Sprintf("PANIC: %v", r)
		}
	}()
	ctx := w.taskCtx[t]
	root := func() hcl.Body { return w.rootTarget(op.Target) }
	switch op.Kind {
	case "value":
		e, name := w.expr(op.Expr)
		c := ctx
		if op.NilCtx {
			c = nil
			w.rs.pt[t].probes[pNilCtxSplat]++
		}
		v, d := e.Value(c)
		return "value " + name + " = " + dumpVal(v) + " !" + dumpDiags(d)
	case "variables":
		e, name := w.expr(op.Expr)
		return "variables " + name + " = " + dumpTraversals(e.Variables())
	case "content":
		be := w.body(op.Target)
		sel, _ := maskSchema(w.kindSchema(be.kind), op.Mask|op.Mask>>7)
		c, d := be.body.Content(sel)
		return "content " + dumpContent(c) + " !" + dumpDiags(d)
	case "partial":
		be := w.body(op.Target)
		sel, rest := maskSchema(w.kindSchema(be.kind), op.Mask)
		c, remain, d := be.body.PartialContent(sel)
		c2, d2 := remain.Content(rest)
		return "partial " + dumpContent(c) + " !" + dumpDiags(d) + " || remain " + dumpContent(c2) + " !" + dumpDiags(d2)
	case "just_attrs":
		be := w.body(op.Target)
		a, d := be.body.JustAttributes()
		return "just_attrs " + dumpAttrs(a) + " !" + dumpDiags(d)
	case "decode":
		v, d := hcldec.Decode(root(), w.spec, ctx)
		return "decode " + dumpVal(v) + " !" + dumpDiags(d)
	case "partial_decode":
		v, remain, d := hcldec.PartialDecode(root(), w.spec, ctx)
		a, d2 := remain.JustAttributes()
		return "partial_decode " + dumpVal(v) + " !" + dumpDiags(d) + " || remain " + dumpAttrs(a) + " !" + dumpDiags(d2)
	case "expand_decode":
		var opts []dynblock.ExpandOption
		if op.Check {
			opts = append(opts, dynblock.OptCheckForEach(w.checkForEachCB()))
		}
		eb := dynblock.Expand(root(), ctx, opts...)
		v, d := hcldec.Decode(eb, w.spec, ctx)
		return "expand_decode " + dumpVal(v) + " !" + dumpDiags(d)
	case "shared_expand_decode":
		eb := w.expanded[op.Target%len(w.expanded)]
		v, d := hcldec.Decode(eb, w.spec, ctx)
		return "shared_expand_decode " + dumpVal(v) + " !" + dumpDiags(d)
	case "dec_vars":
		return "dec_vars " + dumpTraversals(hcldec.Variables(root(), w.spec))
	case "expand_vars":
		return "expand_vars " + dumpTraversals(dynblock.VariablesHCLDec(root(), w.spec)) + " | " + dumpTraversals(dynblock.ExpandVariablesHCLDec(root(), w.spec))
	case "implied_type":
		return "implied_type " + hcldec.ImpliedType(w.spec).GoString()
	}
	return "unknown op " + op.Kind
}
