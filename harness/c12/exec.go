package main

import (
	"bytes"
	"errors"
	"fmt"
	"reflect"
	"sort"
	"strings"

	"github.com/hashicorp/hcl/v2"
	"github.com/hashicorp/hcl/v2/hclsyntax"
	"github.com/hashicorp/hcl/v2/hclwrite"
	"github.com/zclconf/go-cty/cty"
	"github.com/zclconf/go-cty/cty/convert"
	"golang.org/x/text/unicode/norm"
)

// nfcAll is the model's view of labels given to the API: HCL strings are
// Unicode-normalised (NFC) wherever they are read, so a label handed over in
// another form is predicted to read back normalised, from the accessors and
// from the saved file alike.
func nfcAll(ls []string) []string {
	out := make([]string, len(ls))
	for i, l := range ls {
		out[i] = norm.NFC.String(l)
	}
	return out
}

// ---- reference model: a body is an ordered list of items ----

const (
	expOrig   = iota // expression as parsed from the initial source
	expValue         // set by value
	expTrav          // set by traversal
	expTokens        // set by raw tokens
)

type mBody struct {
	items []*mItem
	free  []tok
	// oneLine: the body of a block loaded from the single-line form; the first
	// append converts the block to the multi-line form, which moves its
	// argument (and a comment after the brace) to a line of its own
	oneLine bool
}

// reflow is called before anything is appended to a body.
func (b *mBody) reflow() {
	if !b.oneLine {
		return
	}
	b.oneLine = false
	for _, it := range b.items {
		if it.attr != nil {
			it.attr.unit = nil
		}
	}
}

type mItem struct {
	attr  *mAttr
	block *mBlock
}

type mAttr struct {
	name    string
	kind    int
	val     cty.Value
	root    string
	trav    []TravStep
	exprTok []tok // expOrig / expTokens: the expression's tokens
	unit    []tok // whole item incl. comments while never touched, else nil
	nvars   int   // number of variable references (-1: unknown)
	// handle is the *hclwrite.Attribute first seen for this attribute: edits
	// are documented to modify attributes in place, so it must stay the object
	// that GetAttribute returns for as long as the attribute exists in this tree
	handle *hclwrite.Attribute
}

type mBlock struct {
	typ     string
	labels  []string
	body    *mBody
	hdr     []tok // lead comments + header while the header was never touched
	parent  *mBody
	oneLine bool
	// real is the writer's object for this block in the current tree, once
	// the simulated application has seen it (from Blocks(), or as the value an
	// append returned); nil after a reload.  An application that keeps its
	// block objects does not ask Blocks() again before every edit.
	real *hclwrite.Block
}

func (b *mBody) attr(name string) (*mAttr, int) {
	for i, it := range b.items {
		if it.attr != nil && it.attr.name == name {
			return it.attr, i
		}
	}
	return nil, -1
}

func (b *mBody) blocks() []*mBlock {
	var r []*mBlock
	for _, it := range b.items {
		if it.block != nil {
			r = append(r, it.block)
		}
	}
	return r
}

func modelFromAttribution(ab *aBody, parent *mBody) *mBody {
	mb := &mBody{free: ab.free}
	for _, it := range ab.items {
		if it.isBlock {
			bl := &mBlock{typ: it.name, labels: it.labels, hdr: it.unit, parent: mb, oneLine: it.oneLine}
			bl.body = modelFromAttribution(it.body, mb)
			bl.body.oneLine = it.oneLine
			mb.items = append(mb.items, &mItem{block: bl})
		} else {
			a := &mAttr{name: it.name, kind: expOrig, exprTok: it.exprTok, unit: it.unit, nvars: len(it.expr.Variables())}
			mb.items = append(mb.items, &mItem{attr: a})
		}
	}
	return mb
}

// ---- failures ----

type simFail struct {
	verdict string
	detail  string
}

func fail(verdict, format string, args ...any) {
	panic(simFail{verdict, fmt.Sprintf(format, args...)})
}

type handle struct {
	blk *hclwrite.Block
	m   *mBlock
}

type sim struct {
	h       *History
	file    *hclwrite.File
	root    *mBody
	handles []handle
	res     *Result
	op      int
	lastSrc []byte
	// an earlier Bytes() result, as returned and as it was then
	prevSrc, prevCopy []byte
	// disk is the simulated storage: one buffer that every save overwrites and
	// every load reads in place, the way an application reuses its I/O buffer.
	disk []byte
	// lastDetached is the model block most recently removed from a body (a
	// "move" appends that very block somewhere else next)
	lastDetached *mBlock
}

// diskWriter writes into the simulated disk from its start.
type diskWriter struct {
	s *sim
	n int
}

func (w *diskWriter) Write(p []byte) (int, error) {
	if w.n+len(p) > len(w.s.disk) {
		grown := make([]byte, 2*(w.n+len(p)))
		copy(grown, w.s.disk[:w.n])
		w.s.disk = grown
	}
	copy(w.s.disk[w.n:], p)
	w.n += len(p)
	return len(p), nil
}

// call runs an API call, turning a panic into a violation.
func (s *sim) call(what string, f func()) {
	defer func() {
		if r := recover(); r != nil {
			if sf, ok := r.(simFail); ok {
				panic(sf)
			}
			fail("panic", "%s panicked: %v", what, r)
		}
	}()
	f()
}

func (s *sim) probe(n string) { s.res.Probes[n]++ }

// resolve finds the target body of an op in both the tree and the model.
// blocksOf returns the writer's blocks of body tb in the order of the model's
// blocks.  Normally it asks Blocks(); in a history with lazy checks the
// application uses the objects it already holds when it holds all of them.
func (s *sim) blocksOf(tb *hclwrite.Body, mb *mBody) []*hclwrite.Block {
	mbl := mb.blocks()
	if s.h.Lazy > 0 {
		all := true
		for _, m := range mbl {
			if m.real == nil {
				all = false
			}
		}
		if all {
			out := make([]*hclwrite.Block, len(mbl))
			for i, m := range mbl {
				out[i] = m.real
			}
			s.probe("edit_without_asking_blocks")
			return out
		}
	}
	var tbl []*hclwrite.Block
	s.call("Body.Blocks", func() { tbl = tb.Blocks() })
	if len(tbl) != len(mbl) {
		fail("accessor_mismatch", "Blocks() returned %d blocks, model has %d", len(tbl), len(mbl))
	}
	for i, m := range mbl {
		m.real = tbl[i]
	}
	return tbl
}

func forgetReal(mb *mBody) {
	for _, it := range mb.items {
		if it.block != nil {
			it.block.real = nil
			forgetReal(it.block.body)
		}
	}
}

func (s *sim) resolve(op *OpM) (*hclwrite.Body, *mBody, bool) {
	if op.Via == "handle" {
		if len(s.handles) == 0 {
			return nil, nil, false
		}
		h := s.handles[op.Handle%len(s.handles)]
		var b *hclwrite.Body
		s.call("Block.Body", func() { b = h.blk.Body() })
		if h.m.parent == nil {
			s.probe("edit_in_detached_block")
		}
		return b, h.m.body, true
	}
	var tb *hclwrite.Body
	s.call("File.Body", func() { tb = s.file.Body() })
	mb := s.root
	for _, p := range op.Path {
		mbl := mb.blocks()
		if len(mbl) == 0 {
			break
		}
		tbl := s.blocksOf(tb, mb)
		i := p % len(mbl)
		mb = mbl[i].body
		s.call("Block.Body", func() { tb = tbl[i].Body() })
		s.probe("edit_in_nested_body")
	}
	return tb, mb, true
}

func buildTraversal(root string, steps []TravStep) hcl.Traversal {
	t := hcl.Traversal{hcl.TraverseRoot{Name: root}}
	for _, st := range steps {
		switch {
		case st.Str != nil:
			t = append(t, hcl.TraverseIndex{Key: cty.StringVal(*st.Str)})
		case st.Num != nil:
			t = append(t, hcl.TraverseIndex{Key: cty.NumberIntVal(*st.Num)})
		case st.Bool != nil:
			t = append(t, hcl.TraverseIndex{Key: cty.BoolVal(*st.Bool)})
		case st.Null:
			t = append(t, hcl.TraverseIndex{Key: cty.NullVal(cty.DynamicPseudoType)})
		default:
			t = append(t, hcl.TraverseAttr{Name: st.Attr})
		}
	}
	return t
}

func buildRaw(r *RawB) hclwrite.Tokens {
	switch r.Fn {
	case "lex":
		// a heredoc's closing marker is only recognised when a newline follows
		toks, _ := hclsyntax.LexExpression([]byte(r.Src+"\n"), "raw", hcl.InitialPos)
		var out hclwrite.Tokens
		for _, t := range toks {
			if t.Type == hclsyntax.TokenEOF {
				continue
			}
			out = append(out, &hclwrite.Token{Type: t.Type, Bytes: append([]byte{}, t.Bytes...), SpacesBefore: 0})
		}
		for len(out) > 0 && out[len(out)-1].Type == hclsyntax.TokenNewline {
			out = out[:len(out)-1]
		}
		if r.KeepEOF {
			out = append(out, &hclwrite.Token{Type: hclsyntax.TokenEOF, Bytes: []byte{}})
		}
		return out
	case "tuple":
		var el []hclwrite.Tokens
		for i := range r.Args {
			el = append(el, buildRaw(&r.Args[i]))
		}
		return hclwrite.TokensForTuple(el)
	case "object":
		var at []hclwrite.ObjectAttrTokens
		for i := range r.Args {
			at = append(at, hclwrite.ObjectAttrTokens{Name: buildRaw(&r.Keys[i]), Value: buildRaw(&r.Args[i])})
		}
		return hclwrite.TokensForObject(at)
	case "call":
		var el []hclwrite.Tokens
		for i := range r.Args {
			el = append(el, buildRaw(&r.Args[i]))
		}
		return hclwrite.TokensForFunctionCall(r.Name, el...)
	case "ident":
		return hclwrite.TokensForIdentifier(r.Name)
	case "value":
		return hclwrite.TokensForValue(r.Val.Cty())
	case "trav":
		return hclwrite.TokensForTraversal(buildTraversal(r.Root, r.Trav))
	}
	panic("raw recipe " + r.Fn)
}

func rawToks(ts hclwrite.Tokens) []tok {
	var r []tok
	for _, t := range ts {
		if t.Type == hclsyntax.TokenEOF {
			continue
		}
		r = append(r, mkTok(hclsyntax.Token{Type: t.Type, Bytes: t.Bytes}))
	}
	return r
}

func countVars(ts []tok) int {
	var b bytes.Buffer
	for _, t := range ts {
		b.WriteString(" ")
		b.WriteString(t.B)
	}
	e, d := hclsyntax.ParseExpression(b.Bytes(), "raw", hcl.InitialPos)
	if d.HasErrors() {
		return -1
	}
	return len(e.Variables())
}

// applyBodyOp applies one body-level edit to the tree body tb and the model
// body mb.
func (s *sim) applyBodyOp(op *OpM, tb *hclwrite.Body, mb *mBody) {
	setAttr := func(what string, do func() *hclwrite.Attribute, upd func(a *mAttr)) {
		var ret *hclwrite.Attribute
		s.call(what, func() { ret = do() })
		// "The return value is the attribute that was either modified in-place or created."
		var got *hclwrite.Attribute
		s.call("GetAttribute", func() { got = tb.GetAttribute(op.Name) })
		if ret == nil || ret != got {
			fail("accessor_mismatch", "%s(%q) returned %v, GetAttribute afterwards returns %v", what, op.Name, ret != nil, got != nil)
		}
		a, _ := mb.attr(op.Name)
		if a == nil {
			mb.reflow()
			a = &mAttr{name: op.Name}
			mb.items = append(mb.items, &mItem{attr: a})
			s.probe("set_new_attribute")
		} else {
			s.probe("set_existing_attribute")
			if a.kind != expOrig {
				s.probe("repeated_edit_same_item")
			}
		}
		a.unit, a.exprTok, a.trav, a.val = nil, nil, nil, cty.NilVal
		upd(a)
		s.res.Effective++
	}
	switch op.Kind {
	case "set_value":
		v := op.Val.Cty()
		setAttr("SetAttributeValue", func() *hclwrite.Attribute { return tb.SetAttributeValue(op.Name, v) },
			func(a *mAttr) { a.kind, a.val, a.nvars = expValue, v, 0 })
	case "set_trav":
		tr := buildTraversal(op.Root, op.Trav)
		setAttr("SetAttributeTraversal", func() *hclwrite.Attribute { return tb.SetAttributeTraversal(op.Name, tr) },
			func(a *mAttr) { a.kind, a.root, a.trav, a.nvars = expTrav, op.Root, op.Trav, 1 })
	case "set_raw":
		toks := buildRaw(op.Raw)
		exp := rawToks(toks)
		setAttr("SetAttributeRaw", func() *hclwrite.Attribute { return tb.SetAttributeRaw(op.Name, toks) },
			// "an expression created by NewExpressionRaw will produce an empty
			// result for calls to its method Variables" (until it is re-loaded)
			func(a *mAttr) { a.kind, a.exprTok, a.nvars = expTokens, exp, 0 })
		// the caller owns its slice and reuses it ("we copy the tokens here in
		// order to make sure that later mutations by the caller don't
		// inadvertently cause our expression to become invalid")
		for i := range toks {
			toks[i] = &hclwrite.Token{Type: hclsyntax.TokenIdent, Bytes: []byte("callers_reused_slot")}
		}
	case "rename_prefix":
		// Expression.RenameVariablePrefix on an attribute whose expression the
		// model knows structurally (set by traversal or by value); on parsed
		// and raw-token expressions the operation is not generated (the model
		// would have to re-derive their tokens).
		a, _ := mb.attr(op.Name)
		if a == nil || (a.kind != expTrav && a.kind != expValue) {
			return
		}
		isName := func(st TravStep) bool { return st.Str == nil && st.Num == nil && st.Bool == nil && !st.Null }
		search := op.Search
		if a.kind == expTrav && op.Mode > 0 {
			names := []string{a.root}
			for _, st := range a.trav {
				if isName(st) {
					names = append(names, st.Attr)
				} else if op.Mode == 1 {
					break
				}
			}
			n := op.K%3 + 1
			if n > len(names) {
				n = len(names)
			}
			search = names[:n]
		}
		if len(search) == 0 {
			return
		}
		pool := []string{"r0", "r1x", "_r2", "ren"}
		repl := make([]string, len(search))
		for i := range repl {
			repl[i] = pool[(op.K+i)%len(pool)]
		}
		var ga *hclwrite.Attribute
		s.call("GetAttribute", func() { ga = tb.GetAttribute(op.Name) })
		if ga == nil {
			fail("accessor_mismatch", "GetAttribute(%q) returned nil, model has the attribute", op.Name)
		}
		s.call("RenameVariablePrefix", func() { ga.Expr().RenameVariablePrefix(search, repl) })
		if a.kind == expTrav {
			a.trav = append([]TravStep{}, a.trav...)
			lead := []*string{&a.root}
			for i := range a.trav {
				if !isName(a.trav[i]) {
					break
				}
				lead = append(lead, &a.trav[i].Attr)
			}
			match := len(lead) >= len(search)
			for i := 0; match && i < len(search); i++ {
				match = *lead[i] == search[i]
			}
			if match {
				for i := range repl {
					*lead[i] = repl[i]
				}
				s.probe("rename_prefix_matched")
			} else {
				s.probe("rename_prefix_no_match")
			}
		}
		s.res.Effective++
	case "rename":
		var ok bool
		s.call("RenameAttribute", func() { ok = tb.RenameAttribute(op.Name, op.Name2) })
		a, _ := mb.attr(op.Name)
		c, _ := mb.attr(op.Name2)
		want := a != nil && c == nil
		if ok != want {
			fail("accessor_mismatch", "RenameAttribute(%q, %q) returned %v, model says %v", op.Name, op.Name2, ok, want)
		}
		if want {
			a.name = op.Name2
			a.unit = nil
			s.res.Effective++
			s.probe("rename_ok")
		} else if a != nil {
			s.probe("rename_conflict")
		} else {
			s.probe("edit_targets_absent_name")
		}
	case "remove_attr":
		var ret *hclwrite.Attribute
		s.call("RemoveAttribute", func() { ret = tb.RemoveAttribute(op.Name) })
		a, i := mb.attr(op.Name)
		if (ret != nil) != (a != nil) {
			fail("accessor_mismatch", "RemoveAttribute(%q) returned nil=%v, model has attribute=%v", op.Name, ret == nil, a != nil)
		}
		if a != nil {
			mb.items = append(mb.items[:i:i], mb.items[i+1:]...)
			s.res.Effective++
			s.probe("remove_attr_ok")
		} else {
			s.probe("edit_targets_absent_name")
		}
	case "append_new_block":
		var blk *hclwrite.Block
		s.call("AppendNewBlock", func() { blk = tb.AppendNewBlock(op.Type, op.Labels) })
		mb.reflow()
		m := &mBlock{typ: op.Type, labels: nfcAll(op.Labels), body: &mBody{}, parent: mb, real: blk}
		mb.items = append(mb.items, &mItem{block: m})
		s.handles = append(s.handles, handle{blk, m})
		s.res.Effective++
	case "append_fresh_block":
		var blk *hclwrite.Block
		s.call("NewBlock", func() { blk = hclwrite.NewBlock(op.Type, op.Labels) })
		m := &mBlock{typ: op.Type, labels: nfcAll(op.Labels), body: &mBody{}, real: blk}
		for i := range op.Pre {
			var bb *hclwrite.Body
			s.call("Block.Body", func() { bb = blk.Body() })
			s.applyBodyOp(&op.Pre[i], bb, m.body)
		}
		s.call("AppendBlock", func() { tb.AppendBlock(blk) })
		mb.reflow()
		m.parent = mb
		mb.items = append(mb.items, &mItem{block: m})
		s.handles = append(s.handles, handle{blk, m})
		s.res.Effective++
		s.probe("append_prepopulated_block")
	case "append_held_block":
		// move: only a detached block may be appended (API precondition)
		if len(s.handles) == 0 {
			return
		}
		h := s.handles[((op.Handle%len(s.handles))+len(s.handles))%len(s.handles)]
		if op.Handle < 0 {
			// the block removed last
			ok := false
			for _, c := range s.handles {
				if c.m == s.lastDetached {
					h, ok = c, true
				}
			}
			if !ok {
				return
			}
			s.probe("move_block_just_removed")
		}
		if h.m.parent != nil {
			return
		}
		if containsBody(h.m.body, mb) {
			return // would make the block its own ancestor
		}
		s.call("AppendBlock", func() { tb.AppendBlock(h.blk) })
		mb.reflow()
		h.m.parent = mb
		h.m.real = h.blk
		mb.items = append(mb.items, &mItem{block: h.m})
		s.res.Effective++
		s.probe("reattach_removed_block")
	case "remove_block":
		mbl := mb.blocks()
		if len(mbl) == 0 {
			// removing a block that is not in this body must be a no-op
			if len(s.handles) > 0 {
				h := s.handles[op.Handle%len(s.handles)]
				if h.m.parent != mb {
					var ok bool
					s.call("RemoveBlock", func() { ok = tb.RemoveBlock(h.blk) })
					if ok {
						fail("accessor_mismatch", "RemoveBlock of a block that is not in the body returned true")
					}
					s.probe("remove_absent_block")
				}
			}
			return
		}
		tbl := s.blocksOf(tb, mb)
		i := op.Idx % len(mbl)
		var ok bool
		s.call("RemoveBlock", func() { ok = tb.RemoveBlock(tbl[i]) })
		if !ok {
			fail("accessor_mismatch", "RemoveBlock of block %d returned false", i)
		}
		target := mbl[i]
		for k, it := range mb.items {
			if it.block == target {
				mb.items = append(mb.items[:k:k], mb.items[k+1:]...)
				break
			}
		}
		target.parent = nil
		target.hdr = nil
		clearUnits(target.body)
		// keep a handle to the removed block so that it can be edited and moved
		found := false
		for _, h := range s.handles {
			if h.m == target {
				found = true
			}
		}
		if !found {
			s.handles = append(s.handles, handle{tbl[i], target})
		}
		s.lastDetached = target
		s.res.Effective++
	case "set_type", "set_labels", "hold":
		mbl := mb.blocks()
		if len(mbl) == 0 {
			return
		}
		tbl := s.blocksOf(tb, mb)
		i := op.Idx % len(mbl)
		switch op.Kind {
		case "set_type":
			s.call("SetType", func() { tbl[i].SetType(op.Type) })
			if mbl[i].hdr == nil {
				s.probe("repeated_edit_same_item")
			}
			mbl[i].typ, mbl[i].hdr = op.Type, nil
			s.res.Effective++
		case "set_labels":
			// Keep > 0: the first Keep current labels (as the model has them)
			// stay, op.Labels follow — relabelling that leaves a prefix alone
			labels := op.Labels
			if op.Keep > 0 {
				k := op.Keep
				if k > len(mbl[i].labels) {
					k = len(mbl[i].labels)
				}
				labels = append(append([]string{}, mbl[i].labels[:k]...), op.Labels...)
				if k > 0 {
					s.probe("set_labels_keeps_prefix")
				}
			}
			s.call("SetLabels", func() { tbl[i].SetLabels(labels) })
			if mbl[i].hdr == nil {
				s.probe("repeated_edit_same_item")
			}
			mbl[i].labels, mbl[i].hdr = nfcAll(labels), nil
			s.res.Effective++
		case "hold":
			s.handles = append(s.handles, handle{tbl[i], mbl[i]})
		}
	case "clear":
		s.call("Clear", func() { tb.Clear() })
		for _, it := range mb.items {
			if it.block != nil {
				it.block.parent = nil
				it.block.hdr = nil
				clearUnits(it.block.body)
			}
		}
		mb.items = nil
		mb.free = nil
		s.res.Effective++
		s.probe("clear_body")
	case "append_newline":
		s.call("AppendNewline", func() { tb.AppendNewline() })
		mb.reflow()
	default:
		panic("op kind " + op.Kind)
	}
}

func containsBody(hay, needle *mBody) bool {
	if hay == needle {
		return true
	}
	for _, it := range hay.items {
		if it.block != nil && containsBody(it.block.body, needle) {
			return true
		}
	}
	return false
}

// clearUnits drops the "never touched" token expectations inside a removed
// block: moving a block counts as touching everything in it (lenient side).
func clearUnits(b *mBody) {
	b.free = nil
	for _, it := range b.items {
		if it.attr != nil {
			it.attr.unit = nil
		} else {
			it.block.hdr = nil
			clearUnits(it.block.body)
		}
	}
}

// ---- in-memory accessor agreement (after every operation) ----

func (s *sim) checkAccessors(tb *hclwrite.Body, mb *mBody, path string) {
	var attrs map[string]*hclwrite.Attribute
	s.call("Body.Attributes", func() { attrs = tb.Attributes() })
	var want []string
	for _, it := range mb.items {
		if it.attr != nil {
			want = append(want, it.attr.name)
		}
	}
	var got []string
	for n := range attrs {
		got = append(got, n)
	}
	sort.Strings(got)
	ws := append([]string{}, want...)
	sort.Strings(ws)
	if !reflect.DeepEqual(got, ws) && !(len(got) == 0 && len(ws) == 0) {
		fail("accessor_mismatch", "%s: Attributes() has names %q, model has %q", path, got, ws)
	}
	for _, it := range mb.items {
		if it.attr == nil {
			continue
		}
		a := it.attr
		var ga *hclwrite.Attribute
		s.call("GetAttribute", func() { ga = tb.GetAttribute(a.name) })
		if ga == nil || ga != attrs[a.name] {
			fail("accessor_mismatch", "%s: GetAttribute(%q) disagrees with Attributes()", path, a.name)
		}
		if path != "<reloaded>" && !strings.HasPrefix(path, "<reloaded>") {
			if a.handle == nil {
				a.handle = ga
			} else if a.handle != ga {
				fail("accessor_mismatch", "%s: attribute %q is no longer the object it was (a handle obtained earlier is stale although the attribute was only edited in place)", path, a.name)
			}
		}
		// The token list BuildTokens(nil) hands back is the caller's: two
		// calls return equal lists, and the application reuses the slice
		// (here: clears it) without that reaching the tree.
		var bt1, bt2 hclwrite.Tokens
		s.call("Expr.BuildTokens", func() { bt1 = ga.Expr().BuildTokens(nil) })
		s.call("Expr.BuildTokens", func() { bt2 = ga.Expr().BuildTokens(nil) })
		if len(bt1) != len(bt2) {
			fail("accessor_mismatch", "%s: attribute %q: two BuildTokens(nil) calls return %d and %d tokens", path, a.name, len(bt1), len(bt2))
		}
		for k := range bt1 {
			if bt1[k] == nil || bt2[k] == nil || bt1[k].Type != bt2[k].Type || !bytes.Equal(bt1[k].Bytes, bt2[k].Bytes) {
				fail("accessor_mismatch", "%s: attribute %q: two BuildTokens(nil) calls disagree at token %d", path, a.name, k)
			}
		}
		bt1 = append(bt1, &hclwrite.Token{Type: hclsyntax.TokenIdent, Bytes: []byte("callers_own")})
		for k := range bt1 {
			bt1[k] = nil
		}
		if len(bt2) > 1 {
			bt2[0], bt2[len(bt2)-1] = bt2[len(bt2)-1], bt2[0]
		}
		if a.nvars >= 0 {
			var n int
			s.call("Expr.Variables", func() { n = len(ga.Expr().Variables()) })
			if n != a.nvars {
				fail("accessor_mismatch", "%s: attribute %q reports %d variable references, expected %d", path, a.name, n, a.nvars)
			}
		}
	}
	var absent *hclwrite.Attribute
	s.call("GetAttribute", func() { absent = tb.GetAttribute("zz_never_set") })
	if absent != nil {
		fail("accessor_mismatch", "%s: GetAttribute of an absent name returned an attribute", path)
	}
	var tbl []*hclwrite.Block
	s.call("Body.Blocks", func() { tbl = tb.Blocks() })
	mbl := mb.blocks()
	if len(tbl) != len(mbl) {
		fail("accessor_mismatch", "%s: Blocks() returned %d blocks, model has %d", path, len(tbl), len(mbl))
	}
	for i, m := range mbl {
		m.real = tbl[i]
		var ty string
		var labels []string
		s.call("Block.Type", func() { ty = tbl[i].Type() })
		s.call("Block.Labels", func() { labels = tbl[i].Labels() })
		if ty != m.typ {
			fail("accessor_mismatch", "%s: block %d Type() = %q, model %q", path, i, ty, m.typ)
		}
		if !(len(labels) == 0 && len(m.labels) == 0) && !reflect.DeepEqual(labels, m.labels) {
			fail("accessor_mismatch", "%s: block %d (%s) Labels() = %q, model %q", path, i, ty, labels, m.labels)
		}
		// the returned slice is the caller's (e.g. to derive a sibling's
		// labels from it): writing into it must not reach the block
		if len(labels) > 0 {
			for k := range labels {
				labels[k] = "callers_own"
			}
			var again []string
			s.call("Block.Labels", func() { again = tbl[i].Labels() })
			if !reflect.DeepEqual(again, m.labels) {
				fail("accessor_mismatch", "%s: block %d (%s) Labels() = %q after the caller wrote into the slice an earlier call returned, model %q", path, i, ty, again, m.labels)
			}
		}
		// FirstMatchingBlock must return the first block with this type and labels
		first := i
		for k := 0; k < i; k++ {
			if mbl[k].typ == m.typ && ((len(mbl[k].labels) == 0 && len(m.labels) == 0) || reflect.DeepEqual(mbl[k].labels, m.labels)) {
				first = k
				break
			}
		}
		var fm *hclwrite.Block
		s.call("FirstMatchingBlock", func() { fm = tb.FirstMatchingBlock(m.typ, m.labels) })
		if fm != tbl[first] {
			fail("accessor_mismatch", "%s: FirstMatchingBlock(%q, %q) did not return block %d", path, m.typ, m.labels, first)
		}
		var nb *hclwrite.Body
		s.call("Block.Body", func() { nb = tbl[i].Body() })
		s.checkAccessors(nb, m.body, fmt.Sprintf("%s/%s[%d]", path, m.typ, i))
	}
	// the containers the accessors returned are the caller's too
	for k := range tbl {
		tbl[k] = nil
	}
	for n := range attrs {
		delete(attrs, n)
	}
}

// ---- saved-file check ----

func (s *sim) checkSaved() []byte {
	var src, src2 []byte
	s.call("File.Bytes", func() { src = s.file.Bytes() })
	keep := append([]byte{}, src...)
	s.call("File.Bytes", func() { src2 = s.file.Bytes() })
	// what Bytes() returned belongs to the caller: later saves must not touch it
	if !bytes.Equal(src, keep) {
		fail("bytes_unstable", "the slice returned by Bytes() was modified by the next Bytes() call:\n%s\n-----\n%s", keep, src)
	}
	if s.prevSrc != nil && !bytes.Equal(s.prevSrc, s.prevCopy) {
		fail("bytes_unstable", "a slice returned by an earlier Bytes() call was modified by later edits and saves:\n%s\n-----\n%s", s.prevCopy, s.prevSrc)
	}
	s.prevSrc, s.prevCopy = src, keep
	s.lastSrc = src
	if !bytes.Equal(src, src2) {
		fail("bytes_unstable", "two consecutive Bytes() calls differ:\n%s\n-----\n%s", src, src2)
	}
	ab, diags := attributeSource(src)
	if diags.HasErrors() {
		fail("invalid_output", "the serialised file does not parse: %s", dumpDiags(diags))
	}
	s.compareBody(s.root, ab, "", src)
	return src
}

func (s *sim) compareBody(mb *mBody, ab *aBody, path string, src []byte) {
	if len(mb.items) != len(ab.items) {
		fail("model_mismatch", "%s: file has %d items %s, model has %d items %s", pathOr(path), len(ab.items), aNames(ab), len(mb.items), mNames(mb))
	}
	for i, it := range mb.items {
		ai := ab.items[i]
		p := fmt.Sprintf("%s/%d", path, i)
		if it.attr != nil {
			a := it.attr
			if ai.isBlock || ai.name != a.name {
				fail("model_mismatch", "%s: file has %s, model has attribute %q (file items %s, model items %s)", p, aName(ai), a.name, aNames(ab), mNames(mb))
			}
			s.checkExpectation(a, ai, p)
			if a.unit != nil && !toksEqual(a.unit, ai.unit) {
				fail("token_loss", "%s: attribute %q was never touched but its tokens/comments changed:\n  was: %s\n  now: %s", p, a.name, showToks(a.unit), showToks(ai.unit))
			}
			continue
		}
		m := it.block
		if !ai.isBlock || ai.name != m.typ || !(len(ai.labels) == 0 && len(m.labels) == 0) && !reflect.DeepEqual(ai.labels, m.labels) {
			fail("model_mismatch", "%s: file has %s, model has block %s %q", p, aName(ai), m.typ, m.labels)
		}
		if m.hdr != nil && !toksEqual(m.hdr, ai.unit) {
			fail("token_loss", "%s: header of block %q was never touched but its tokens/comments changed:\n  was: %s\n  now: %s", p, m.typ, showToks(m.hdr), showToks(ai.unit))
		}
		s.compareBody(m.body, ai.body, p, src)
	}
	// a free-standing comment may end up directly above an appended item, so
	// it is looked for among all comments at this level
	if len(mb.free) > 0 && !isSubsequence(mb.free, ab.level) {
		fail("token_loss", "%s: free-standing comments were lost:\n  was: %s\n  now: %s", pathOr(path), showToks(mb.free), showToks(ab.level))
	}
}

func pathOr(p string) string {
	if p == "" {
		return "/"
	}
	return p
}

func aName(ai *aItem) string {
	if ai.isBlock {
		return fmt.Sprintf("block %s %q", ai.name, ai.labels)
	}
	return fmt.Sprintf("attribute %q", ai.name)
}

func aNames(ab *aBody) string {
	var ss []string
	for _, it := range ab.items {
		ss = append(ss, aName(it))
	}
	return "[" + strings.Join(ss, ", ") + "]"
}

func mNames(mb *mBody) string {
	var ss []string
	for _, it := range mb.items {
		if it.attr != nil {
			ss = append(ss, fmt.Sprintf("attribute %q", it.attr.name))
		} else {
			ss = append(ss, fmt.Sprintf("block %s %q", it.block.typ, it.block.labels))
		}
	}
	return "[" + strings.Join(ss, ", ") + "]"
}

func (s *sim) checkExpectation(a *mAttr, ai *aItem, p string) {
	switch a.kind {
	case expValue:
		got, diags := ai.expr.Value(nil)
		if diags.HasErrors() {
			fail("value_mismatch", "%s: attribute %q set to %s does not evaluate: %s", p, a.name, dumpVal(a.val), dumpDiags(diags))
		}
		conv, err := convert.Convert(got, a.val.Type())
		if err != nil || !conv.RawEquals(a.val) {
			fail("value_mismatch", "%s: attribute %q was set to %s but reads back as %s", p, a.name, dumpVal(a.val), dumpVal(got))
		}
	case expTrav:
		tr, diags := hcl.AbsTraversalForExpr(ai.expr)
		if diags.HasErrors() {
			fail("value_mismatch", "%s: attribute %q set to a traversal does not read back as one: %s", p, a.name, dumpDiags(diags))
		}
		want := buildTraversal(a.root, a.trav)
		if !travEqual(tr, want) {
			fail("value_mismatch", "%s: attribute %q traversal reads back differently: %s", p, a.name, dumpTraversals([]hcl.Traversal{tr}))
		}
	case expTokens, expOrig:
		if !toksEqual(normToks(a.exprTok), normToks(ai.exprTok)) {
			fail("value_mismatch", "%s: attribute %q expression tokens changed:\n  expected: %s\n  file:     %s", p, a.name, showToks(a.exprTok), showToks(ai.exprTok))
		}
	}
}

// normToks prepares an expression's tokens for comparison: newline tokens are
// dropped (where an expression in brackets breaks its lines is layout), and a
// negative number literal produced by a token builder as one token is split
// the way the scanner splits it ("-954" -> "-" "954"), adjacent quoted-literal
// tokens are merged.  Token boundaries are
// otherwise kept: "foo bar" and "foobar" are different expressions.
func normToks(ts []tok) []tok {
	var r []tok
	for _, t := range ts {
		switch {
		case t.T == hclsyntax.TokenNewline:
		case t.T == hclsyntax.TokenNumberLit && strings.HasPrefix(t.B, "-") && len(t.B) > 1:
			r = append(r, tok{hclsyntax.TokenMinus, "-"}, tok{hclsyntax.TokenNumberLit, t.B[1:]})
		case t.T == hclsyntax.TokenQuotedLit && len(r) > 0 && r[len(r)-1].T == hclsyntax.TokenQuotedLit:
			// the scanner splits a quoted literal at escaped template
			// introducers, token builders emit one token
			r[len(r)-1].B += t.B
		default:
			r = append(r, t)
		}
	}
	return r
}

// dropNewlines removes a trailing newline token that the scanner attributes to
// a heredoc-terminated expression but keeps everything else.
func dropNewlines(ts []tok) []tok {
	for len(ts) > 0 && ts[len(ts)-1].T == hclsyntax.TokenNewline {
		ts = ts[:len(ts)-1]
	}
	return ts
}

func travEqual(a, b hcl.Traversal) bool {
	if len(a) != len(b) {
		return false
	}
	for i := range a {
		switch x := a[i].(type) {
		case hcl.TraverseRoot:
			y, ok := b[i].(hcl.TraverseRoot)
			if !ok || x.Name != y.Name {
				return false
			}
		case hcl.TraverseAttr:
			y, ok := b[i].(hcl.TraverseAttr)
			if !ok || x.Name != y.Name {
				return false
			}
		case hcl.TraverseIndex:
			y, ok := b[i].(hcl.TraverseIndex)
			if !ok || !x.Key.RawEquals(y.Key) {
				return false
			}
		default:
			return false
		}
	}
	return true
}

// ---- environment events ----

type faultWriter struct {
	limit   int
	partial bool
	buf     []byte
	failed  bool
	after   int // writes attempted after the writer had failed
}

var errSimWrite = errors.New("simulated write failure")

func (w *faultWriter) Write(p []byte) (int, error) {
	if w.failed {
		w.after++
		return 0, errSimWrite
	}
	if len(w.buf)+len(p) <= w.limit {
		w.buf = append(w.buf, p...)
		return len(p), nil
	}
	w.failed = true
	n := 0
	if w.partial {
		n = w.limit - len(w.buf)
		w.buf = append(w.buf, p[:n]...)
	}
	return n, errSimWrite
}

func (s *sim) writeFault(op *OpM) {
	w := &faultWriter{limit: op.K, partial: op.Kind == "short_write"}
	var n int64
	var err error
	s.call("File.WriteTo", func() { n, err = s.file.WriteTo(w) })
	var full []byte
	s.call("File.Bytes", func() { full = s.file.Bytes() })
	s.res.Fired[op.Kind]++
	if w.after > 0 {
		fail("write_fault", "WriteTo kept writing after the writer returned an error (%d more writes)", w.after)
	}
	if n != int64(len(w.buf)) {
		fail("write_fault", "WriteTo reported %d bytes written, the writer accepted %d", n, len(w.buf))
	}
	if !bytes.HasPrefix(full, w.buf) {
		fail("write_fault", "bytes accepted before the failure are not a prefix of the file:\n%q\n%q", w.buf, full)
	}
	if w.failed {
		s.probe("writer_failed_mid_file")
		if err == nil {
			fail("write_fault", "the writer failed after %d bytes but WriteTo returned a nil error", len(w.buf))
		}
	} else {
		s.probe("writer_limit_not_reached")
		if err != nil || len(w.buf) != len(full) {
			fail("write_fault", "writer did not fail, yet WriteTo returned err=%v and %d of %d bytes", err, len(w.buf), len(full))
		}
	}
}

func (s *sim) pathOf(target *mBlock) ([]int, bool) {
	var rec func(b *mBody, acc []int) ([]int, bool)
	rec = func(b *mBody, acc []int) ([]int, bool) {
		for i, bl := range b.blocks() {
			p := append(append([]int{}, acc...), i)
			if bl == target {
				return p, true
			}
			if r, ok := rec(bl.body, p); ok {
				return r, true
			}
		}
		return nil, false
	}
	return rec(s.root, nil)
}

func (s *sim) saveReload() {
	want := s.checkSaved()
	// save to the simulated disk, then load from it in place
	dw := &diskWriter{s: s}
	var werr error
	s.call("File.WriteTo", func() { _, werr = s.file.WriteTo(dw) })
	if werr != nil || !bytes.Equal(s.disk[:dw.n], want) {
		fail("write_fault", "WriteTo to a healthy writer returned err=%v or bytes different from Bytes()", werr)
	}
	src := s.disk[:dw.n]
	var nf *hclwrite.File
	var diags hcl.Diagnostics
	s.call("hclwrite.ParseConfig", func() { nf, diags = hclwrite.ParseConfig(src, "saved.hcl", hcl.InitialPos) })
	if diags.HasErrors() {
		fail("reload_failed", "the saved file does not load: %s", dumpDiags(diags))
	}
	s.file = nf
	forgetReal(s.root) // a reloaded tree has new objects
	s.res.Fired["save_reload"]++
	// Loading re-partitions the tokens: a free-standing comment that now sits
	// directly above an item has become that item's lead comment and shares
	// its fate from here on.
	if ab, d := attributeSource(src); !d.HasErrors() {
		refreeze(s.root, ab)
		recount(s.root, ab)
	}
	// only the bytes survive: handles to detached blocks are gone, the others
	// are re-resolved by path
	var nh []handle
	for _, h := range s.handles {
		p, ok := s.pathOf(h.m)
		if !ok {
			continue
		}
		var tb *hclwrite.Body
		s.call("File.Body", func() { tb = s.file.Body() })
		var blk *hclwrite.Block
		okp := true
		for _, i := range p {
			var tbl []*hclwrite.Block
			s.call("Body.Blocks", func() { tbl = tb.Blocks() })
			if i >= len(tbl) {
				okp = false
				break
			}
			blk = tbl[i]
			s.call("Block.Body", func() { tb = blk.Body() })
		}
		if okp && blk != nil {
			nh = append(nh, handle{blk, h.m})
		}
	}
	s.handles = nh
}

// refreeze keeps, per body, only those expected free comments that are still
// free-standing in the saved file.
func refreeze(mb *mBody, ab *aBody) {
	var keep []tok
	j := 0
	for _, want := range mb.free {
		for k := j; k < len(ab.free); k++ {
			if ab.free[k] == want {
				keep = append(keep, want)
				j = k + 1
				break
			}
		}
	}
	mb.free = keep
	bi := 0
	for _, it := range mb.items {
		if bi >= len(ab.items) {
			break
		}
		if it.block != nil && ab.items[bi].isBlock {
			refreeze(it.block.body, ab.items[bi].body)
		}
		bi++
	}
}

// recount: after a reload every expression has been parsed, so Variables()
// reports what the parser finds in it, whatever the expression was set from.
func recount(mb *mBody, ab *aBody) {
	for _, it := range mb.items {
		if it.attr != nil {
			it.attr.handle = nil // a reloaded tree has new objects
		}
	}
	for i, it := range mb.items {
		if i >= len(ab.items) {
			return
		}
		ai := ab.items[i]
		if it.attr != nil && !ai.isBlock && ai.expr != nil {
			it.attr.nvars = len(ai.expr.Variables())
		} else if it.block != nil && ai.isBlock {
			recount(it.block.body, ai.body)
		}
	}
}

// ---- running a history ----

func runHistory(h *History) (res *Result) {
	res = &Result{Seed: h.Seed, Verdict: "ok", OpKinds: map[string]uint64{}, Fired: map[string]uint64{}, Probes: map[string]uint64{}, InitKind: h.Init.Kind, NOps: len(h.Ops), FaultFree: true}
	s := &sim{h: h, res: res, op: -1}
	defer func() {
		if r := recover(); r != nil {
			sf, ok := r.(simFail)
			if !ok {
				panic(r)
			}
			res.Verdict, res.Detail, res.OpIndex = sf.verdict, sf.detail, s.op
			if s.lastSrc != nil {
				res.Source = string(s.lastSrc)
			}
		}
	}()
	shape := uint64(0xcbf29ce484222325)
	for _, op := range h.Ops {
		shape = (shape ^ strHash(op.Kind+"/"+op.Via)) * 0x100000001b3
		switch op.Kind {
		case "save_reload", "write_error", "short_write", "bytes":
			res.FaultFree = false
		}
	}
	res.Shape = shape

	// initial state
	if h.Init.Kind == "empty" {
		s.call("NewEmptyFile", func() { s.file = hclwrite.NewEmptyFile() })
		s.root = &mBody{}
		s.disk = make([]byte, 1<<14)
	} else {
		s.disk = make([]byte, 1<<14)
		n0 := copy(s.disk, h.Init.Source())
		src := s.disk[:n0]
		ab, diags := attributeSource(append([]byte{}, src...))
		if diags.HasErrors() {
			// the generator produced an invalid initial file: harness trouble
			res.Verdict, res.Detail = "internal", "generated initial source does not parse: "+dumpDiags(diags)+"\n"+string(src)
			return res
		}
		s.root = modelFromAttribution(ab, nil)
		var diags2 hcl.Diagnostics
		s.call("hclwrite.ParseConfig", func() { s.file, diags2 = hclwrite.ParseConfig(src, "init.hcl", hcl.InitialPos) })
		if diags2.HasErrors() {
			fail("load_failed", "hclwrite.ParseConfig rejects an error-free file: %s", dumpDiags(diags2))
		}
	}
	var tb *hclwrite.Body
	s.call("File.Body", func() { tb = s.file.Body() })
	s.checkAccessors(tb, s.root, "")

	for i := range h.Ops {
		op := &h.Ops[i]
		s.op = i
		res.OpKinds[op.Kind]++
		switch op.Kind {
		case "bytes":
			s.checkSaved()
			res.Fired["bytes_interleaved"]++
		case "save_reload":
			s.saveReload()
		case "write_error", "short_write":
			s.writeFault(op)
		default:
			tb, mb, ok := s.resolve(op)
			if !ok {
				continue
			}
			s.applyBodyOp(op, tb, mb)
		}
		if h.Lazy > 0 && (i+1)%h.Lazy != 0 && op.Kind != "save_reload" {
			// an application that edits for a while without reading anything
			// back: accessors are compared every Lazy-th operation only
			s.probe("op_without_readback")
			continue
		}
		s.call("File.Body", func() { tb = s.file.Body() })
		s.checkAccessors(tb, s.root, "")
		// detached blocks keep answering their accessors too
		for _, hd := range s.handles {
			if hd.m.parent == nil {
				var b *hclwrite.Body
				s.call("Block.Body", func() { b = hd.blk.Body() })
				s.checkAccessors(b, hd.m.body, "<detached>")
			}
		}
	}
	s.op = len(h.Ops)
	src := s.checkSaved()
	res.OutHash = strHash(string(src))
	// the final file, loaded afresh by the writer's own loader, must answer
	// its accessors as the model predicts (without adopting that tree)
	var nf *hclwrite.File
	var ld hcl.Diagnostics
	s.call("hclwrite.ParseConfig", func() { nf, ld = hclwrite.ParseConfig(append([]byte{}, src...), "final.hcl", hcl.InitialPos) })
	if ld.HasErrors() {
		fail("reload_failed", "the final file does not load: %s", dumpDiags(ld))
	}
	var nb *hclwrite.Body
	s.call("File.Body", func() { nb = nf.Body() })
	s.file = nf // accessor failures are reported against the reloaded tree
	if ab, d := attributeSource(src); !d.HasErrors() {
		recount(s.root, ab)
	}
	s.checkAccessors(nb, s.root, "<reloaded>")
	var again []byte
	s.call("File.Bytes", func() { again = nf.Bytes() })
	// only inter-token spacing may differ (how comments are aligned after a
	// reload is the formatter's business, property C09, not this one's)
	if !sameTokens(src, again) {
		fail("token_loss", "loading the final file and saving it unmodified changes its tokens:\n%s\n-----\n%s", src, again)
	}
	return res
}

func sameTokens(a, b []byte) bool {
	ta, _ := lexToks(a)
	tb, _ := lexToks(b)
	if len(ta) != len(tb) {
		return false
	}
	for i := range ta {
		if mkTok(ta[i]) != mkTok(tb[i]) {
			return false
		}
	}
	return true
}

func strHash(s string) uint64 {
	h := uint64(0xcbf29ce484222325)
	for i := 0; i < len(s); i++ {
		h = (h ^ uint64(s[i])) * 0x100000001b3
	}
	return h
}
