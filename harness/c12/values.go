package main

import (
	"fmt"
	"sort"
	"strconv"
	"strings"

	"github.com/hashicorp/hcl/v2"
	"github.com/hashicorp/hcl/v2/ext/typeexpr"
	"github.com/hashicorp/hcl/v2/hclsyntax"
	"github.com/zclconf/go-cty/cty"
)

// V is a JSON-serialisable description of a cty value, including unknowns,
// nulls, marks and refinements.
type V struct {
	K    string   `json:"k"` // str num bool list tuple set obj map null unk unknn dyn
	S    string   `json:"s,omitempty"`
	N    int64    `json:"n,omitempty"`
	B    bool     `json:"b,omitempty"`
	L    []V      `json:"l,omitempty"`
	Keys []string `json:"keys,omitempty"` // obj/map attribute names, parallel to L
	T    string   `json:"t,omitempty"`    // type expression for null/unk/empty collections
	Mark string   `json:"mark,omitempty"`
	Lo   int      `json:"lo,omitempty"` // unk list: length bounds refinement (Hi>0 enables)
	Hi   int      `json:"hi,omitempty"`
}

func parseType(s string) cty.Type {
	expr, diags := hclsyntax.ParseExpression([]byte(s), "type", hcl.InitialPos)
	if diags.HasErrors() {
		panic("bad type expr " + s + ": " + diags.Error())
	}
	ty, diags := typeexpr.TypeConstraint(expr)
	if diags.HasErrors() {
		panic("bad type expr " + s + ": " + diags.Error())
	}
	return ty
}

func (v V) Cty() cty.Value {
	var r cty.Value
	switch v.K {
	case "str":
		r = cty.StringVal(v.S)
	case "num":
		r = cty.NumberIntVal(v.N)
	case "f64":
		f, err := strconv.ParseFloat(v.S, 64)
		if err != nil {
			panic("bad f64 " + v.S)
		}
		r = cty.NumberFloatVal(f)
	case "numf":
		var err error
		r, err = cty.ParseNumberVal(v.S)
		if err != nil {
			panic("bad numf " + v.S)
		}
	case "bool":
		r = cty.BoolVal(v.B)
	case "list", "set", "tuple":
		els := make([]cty.Value, len(v.L))
		for i, e := range v.L {
			els[i] = e.Cty()
		}
		switch v.K {
		case "tuple":
			r = cty.TupleVal(els)
		case "list":
			if len(els) == 0 {
				r = cty.ListValEmpty(parseType(v.T))
			} else if cty.CanListVal(els) {
				r = cty.ListVal(els)
			} else {
				r = cty.TupleVal(els)
			}
		case "set":
			if len(els) == 0 {
				r = cty.SetValEmpty(parseType(v.T))
			} else if cty.CanSetVal(els) {
				r = cty.SetVal(els)
			} else {
				r = cty.TupleVal(els)
			}
		}
	case "obj", "map":
		m := make(map[string]cty.Value, len(v.L))
		for i, e := range v.L {
			m[v.Keys[i]] = e.Cty()
		}
		if v.K == "obj" {
			r = cty.ObjectVal(m)
		} else if len(m) == 0 {
			r = cty.MapValEmpty(parseType(v.T))
		} else if cty.CanMapVal(m) {
			r = cty.MapVal(m)
		} else {
			r = cty.ObjectVal(m)
		}
	case "null":
		r = cty.NullVal(parseType(v.T))
	case "unk":
		r = cty.UnknownVal(parseType(v.T))
		if v.Hi > 0 && r.Type().IsCollectionType() {
			r = r.Refine().CollectionLengthLowerBound(v.Lo).CollectionLengthUpperBound(v.Hi).NewValue()
		}
	case "unknn":
		r = cty.UnknownVal(parseType(v.T)).RefineNotNull()
	case "dyn":
		r = cty.DynamicVal
	default:
		panic("bad V kind " + v.K)
	}
	if v.Mark != "" {
		r = r.Mark(v.Mark)
	}
	return r
}

// dumpVal renders a value completely and canonically: types, unknown
// refinements, nulls and marks at every depth (marks sorted).
func dumpVal(v cty.Value) string {
	var b strings.Builder
	dumpValTo(&b, v)
	return b.String()
}

func dumpValTo(b *strings.Builder, v cty.Value) {
	if v == cty.NilVal {
		b.WriteString("NIL")
		return
	}
	if v.IsMarked() {
		uv, marks := v.Unmark()
		ms := make([]string, 0, len(marks))
		for m := range marks {
			ms = append(ms, fmt.Sprintf("%#v", m))
		}
		sort.Strings(ms)
		b.WriteString("MARK{" + strings.Join(ms, ",") + "}(")
		dumpValTo(b, uv)
		b.WriteString(")")
		return
	}
	ty := v.Type()
	if !v.IsKnown() {
		b.WriteString("UNK(" + v.GoString() + ")")
		return
	}
	if v.IsNull() {
		b.WriteString("NULL(" + ty.GoString() + ")")
		return
	}
	switch {
	case ty.IsPrimitiveType():
		b.WriteString(v.GoString())
	case ty.IsListType() || ty.IsSetType() || ty.IsTupleType():
		switch {
		case ty.IsListType():
			b.WriteString("LIST<" + ty.ElementType().GoString() + ">[")
		case ty.IsSetType():
			b.WriteString("SET<" + ty.ElementType().GoString() + ">[")
		default:
			b.WriteString("TUPLE[")
		}
		i := 0
		for it := v.ElementIterator(); it.Next(); {
			_, ev := it.Element()
			if i > 0 {
				b.WriteString(", ")
			}
			dumpValTo(b, ev)
			i++
		}
		b.WriteString("]")
	case ty.IsMapType() || ty.IsObjectType():
		if ty.IsMapType() {
			b.WriteString("MAP<" + ty.ElementType().GoString() + ">{")
		} else {
			b.WriteString("OBJ{")
		}
		m := v.AsValueMap()
		keys := make([]string, 0, len(m))
		for k := range m {
			keys = append(keys, k)
		}
		sort.Strings(keys)
		for i, k := range keys {
			if i > 0 {
				b.WriteString(", ")
			}
			fmt.Fprintf(b, "%q: ", k)
			dumpValTo(b, m[k])
		}
		b.WriteString("}")
	default:
		b.WriteString("OTHER(" + v.GoString() + ")")
	}
}

// dumpDiags renders diagnostics as a sorted multiset; evaluation order of map
// iterations inside the library is not part of the property.
func dumpDiags(diags hcl.Diagnostics) string {
	if len(diags) == 0 {
		return ""
	}
	ss := make([]string, 0, len(diags))
	for _, d := range diags {
		det := d.Detail
		// cty wraps a panicking function's message together with a stack trace
		if i := strings.Index(det, "panic in function implementation:"); i >= 0 {
			if j := strings.IndexByte(det[i:], '\n'); j >= 0 {
				det = det[:i+j] + " <stack elided>"
			}
		}
		sub, ctx := "-", "-"
		if d.Subject != nil {
			sub = d.Subject.String()
		}
		if d.Context != nil {
			ctx = d.Context.String()
		}
		ss = append(ss, fmt.Sprintf("sev=%d|%s|%s|%s|%s", d.Severity, d.Summary, det, sub, ctx))
	}
	sort.Strings(ss)
	return strings.Join(ss, "\n")
}

func dumpTraversals(ts []hcl.Traversal) string {
	ss := make([]string, 0, len(ts))
	for _, t := range ts {
		var b strings.Builder
		for _, st := range t {
			switch s := st.(type) {
			case hcl.TraverseRoot:
				b.WriteString(s.Name)
			case hcl.TraverseAttr:
				b.WriteString("." + s.Name)
			case hcl.TraverseIndex:
				b.WriteString("[" + dumpVal(s.Key) + "]")
			case hcl.TraverseSplat:
				b.WriteString("[*]")
			default:
				fmt.Fprintf(&b, "?%T", st)
			}
		}
		b.WriteString("@" + t.SourceRange().String())
		ss = append(ss, b.String())
	}
	sort.Strings(ss)
	return strings.Join(ss, ";")
}
