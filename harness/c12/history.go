package main

// History is one fully explicit simulated history for property C12: an
// initial file (rendered from a descriptor, so that interventions and the
// minimiser can edit it), and a sequence of operations with concrete
// arguments, including environment events (save/reload, failing writers).
type History struct {
	Property string  `json:"property"`
	Seed     uint64  `json:"seed"`
	Init     InitM   `json:"init"`
	Ops      []OpM   `json:"ops"`
	Note     string  `json:"note,omitempty"`
	// Lazy > 0: the read accessors are compared with the model after every
	// Lazy-th operation only (and at the end), and block objects the
	// application already holds are used without asking Blocks() again.
	Lazy int `json:"lazy_checks,omitempty"`
}

type InitM struct {
	Kind      string `json:"kind"` // empty | parsed
	Body      DBody  `json:"body"`
	CRLF      bool   `json:"crlf,omitempty"`
	NoFinalNL bool   `json:"no_final_nl,omitempty"`
	TailCmt   string `json:"tail_comment,omitempty"` // comment after the last item (same line if NoFinalNL)
}

// DBody / DItem describe generated source text.
type DBody struct {
	Items []DItem  `json:"items,omitempty"`
	Tail  []string `json:"tail,omitempty"` // comment lines after the last item (before the closing brace)
}

type DItem struct {
	// layout
	Blank   int      `json:"blank,omitempty"`    // blank lines before
	Free    []string `json:"free,omitempty"`     // free comment lines before (followed by a blank line)
	Lead    []string `json:"lead,omitempty"`     // lead comment lines (attached)
	Inline  string   `json:"inline,omitempty"`   // /* c */ before the item on the same line
	LineCmt string   `json:"line_cmt,omitempty"` // trailing comment text incl. marker, e.g. "# c3"
	// attribute
	Name  string `json:"name,omitempty"`
	Eq    string `json:"eq,omitempty"` // spelling of the equals sign with spacing, e.g. " = "
	Expr  string `json:"expr,omitempty"`
	// block
	Type     string   `json:"type,omitempty"`
	Labels   []DLabel `json:"labels,omitempty"`
	Body     *DBody   `json:"body,omitempty"`
	OneLine  bool     `json:"one_line,omitempty"`
	PreLabel string   `json:"pre_label,omitempty"` // comment between type and first label / brace
	OpenCmt  string   `json:"open_cmt,omitempty"`  // comment after the opening brace, on its line
	EqCmt    string   `json:"eq_cmt,omitempty"`    // inline comment between "=" and the expression
	LabelCmt string   `json:"label_cmt,omitempty"` // inline comment between labels / before the brace
}

type DLabel struct {
	Text string `json:"text"`
	Bare bool   `json:"bare,omitempty"`
	Raw  string `json:"raw,omitempty"` // exact quoted spelling if non-empty (e.g. with $${ )
}

type TravStep struct {
	Attr string `json:"attr,omitempty"`
	Str  *string `json:"str,omitempty"`
	Num  *int64  `json:"num,omitempty"`
	Bool *bool   `json:"bool,omitempty"`
	Null bool    `json:"null,omitempty"` // index key is the untyped null literal
}

// RawB is a recipe for raw expression tokens.
type RawB struct {
	Fn   string   `json:"fn"` // lex | tuple | object | call | ident | value | trav
	Src  string   `json:"src,omitempty"`
	Name string   `json:"name,omitempty"`
	Args []RawB   `json:"args,omitempty"`
	Keys []RawB   `json:"keys,omitempty"`
	Val  *V       `json:"val,omitempty"`
	Root string   `json:"root,omitempty"`
	Trav []TravStep `json:"trav,omitempty"`
	KeepEOF bool  `json:"keep_eof,omitempty"`
}

type OpM struct {
	Kind   string     `json:"kind"`
	Via    string     `json:"via,omitempty"` // "" = path, "handle"
	Path   []int      `json:"path,omitempty"`
	Handle int        `json:"handle,omitempty"`
	Idx    int        `json:"idx,omitempty"` // block index within the body
	Name   string     `json:"name,omitempty"`
	Name2  string     `json:"name2,omitempty"`
	Val    *V         `json:"val,omitempty"`
	Root   string     `json:"root,omitempty"`
	Trav   []TravStep `json:"trav,omitempty"`
	Raw    *RawB      `json:"raw,omitempty"`
	Type   string     `json:"type,omitempty"`
	Labels []string   `json:"labels,omitempty"`
	Keep   int        `json:"keep,omitempty"` // set_labels: keep this many of the current labels in front of Labels
	Search []string   `json:"search,omitempty"` // rename_prefix: the names to look for (mode 0)
	Mode   int        `json:"mode,omitempty"`   // rename_prefix: 1 = leading names of the target's traversal, 2 = its names with index steps skipped
	Pre    []OpM      `json:"pre,omitempty"` // edits applied to a fresh block before it is appended
	K      int        `json:"k,omitempty"`   // bytes a failing writer accepts
	Chunk  int        `json:"chunk,omitempty"`
}

type Result struct {
	Seed     uint64            `json:"seed"`
	Verdict  string            `json:"verdict"`
	Detail   string            `json:"detail,omitempty"`
	OpIndex  int               `json:"op_index"`
	Source   string            `json:"source,omitempty"`
	NOps     int               `json:"nops"`
	Effective int              `json:"effective"`
	Shape    uint64            `json:"shape"`
	OpKinds  map[string]uint64 `json:"op_kinds"`
	Fired    map[string]uint64 `json:"fired"`
	Probes   map[string]uint64 `json:"probes"`
	OutHash  uint64            `json:"out_hash"`
	InitKind string            `json:"init_kind"`
	FaultFree bool             `json:"fault_free"`
}
