package main

import (
	"fmt"
	"sort"
	"strings"

	"github.com/hashicorp/hcl/v2"
	"github.com/hashicorp/hcl/v2/hclsyntax"
)

// tok is a token as the oracle sees it: type and bytes, never spacing.
type tok struct {
	T hclsyntax.TokenType
	B string
}

func (t tok) String() string { return fmt.Sprintf("%s(%q)", t.T, t.B) }

// mkTok builds the oracle's view of a token.  A single-line comment token
// includes its line end in the scanner's output; whether that line end is
// "\n", "\r\n" or (at end of file) absent is spacing, not comment text.
func mkTok(t hclsyntax.Token) tok {
	b := string(t.Bytes)
	if t.Type == hclsyntax.TokenComment {
		b = strings.TrimRight(b, "\r\n")
	}
	if t.Type == hclsyntax.TokenCHeredoc {
		b = strings.TrimRight(b, " \t") // spaces between the marker and its line end
	}
	return tok{t.Type, b}
}

func toksEqual(a, b []tok) bool {
	if len(a) != len(b) {
		return false
	}
	for i := range a {
		if a[i] != b[i] {
			return false
		}
	}
	return true
}

func showToks(ts []tok) string {
	s := ""
	for i, t := range ts {
		if i > 0 {
			s += " "
		}
		s += t.String()
		if len(s) > 600 {
			return s + " …"
		}
	}
	return s
}

// aBody / aItem: what a source text contains, derived only from the
// hclsyntax scanner and parser (never from hclwrite's own token partitioning).
type aBody struct {
	items []*aItem
	free  []tok // comments that belong to no item
	level []tok // every comment at this body's level (free, lead and line comments; not those of nested bodies)
}

type aItem struct {
	isBlock bool
	name    string // attribute name or block type
	labels  []string
	unit    []tok // attribute: lead comments + item tokens + line comment; block: lead comments + header up to and including "{"
	exprTok []tok // attribute: tokens of the expression
	expr    hclsyntax.Expression
	body    *aBody
	oneLine bool
}

func lexToks(src []byte) ([]hclsyntax.Token, hcl.Diagnostics) {
	return hclsyntax.LexConfig(src, "out.hcl", hcl.InitialPos)
}

// attribute parses src and attributes every token to an item or to the free
// comments of a body.
func attributeSource(src []byte) (*aBody, hcl.Diagnostics) {
	f, diags := hclsyntax.ParseConfig(src, "out.hcl", hcl.InitialPos)
	if diags.HasErrors() {
		return nil, diags
	}
	toks, _ := lexToks(src)
	body := f.Body.(*hclsyntax.Body)
	return attrBody(body, toks, 0, len(toks)), nil
}

func isComment(t hclsyntax.Token) bool { return t.Type == hclsyntax.TokenComment }

func attrBody(b *hclsyntax.Body, toks []hclsyntax.Token, lo, hi int) *aBody {
	type ent struct {
		start, end int
		attr       *hclsyntax.Attribute
		block      *hclsyntax.Block
	}
	var ents []ent
	for _, a := range b.Attributes {
		ents = append(ents, ent{a.SrcRange.Start.Byte, a.SrcRange.End.Byte, a, nil})
	}
	for _, bl := range b.Blocks {
		r := bl.Range()
		ents = append(ents, ent{r.Start.Byte, bl.CloseBraceRange.End.Byte, nil, bl})
	}
	sort.Slice(ents, func(i, j int) bool { return ents[i].start < ents[j].start })
	ab := &aBody{}
	used := make(map[int]bool)
	nested := make(map[int]bool)
	idxAt := func(byteOff int) int {
		for i := lo; i < hi; i++ {
			if toks[i].Range.Start.Byte == byteOff && toks[i].Type != hclsyntax.TokenEOF {
				return i
			}
		}
		return -1
	}
	for _, e := range ents {
		fi := idxAt(e.start)
		if fi < 0 {
			continue
		}
		// last token of the item
		li := fi
		for li+1 < hi && toks[li+1].Range.End.Byte <= e.end && toks[li+1].Type != hclsyntax.TokenEOF {
			li++
		}
		// lead comments: the run of comment tokens directly before the item,
		// except a comment that sits on the line of the previous item
		ls := fi
		for ls-1 >= lo && isComment(toks[ls-1]) {
			j := ls - 1
			// Is there a significant token earlier on the line this comment
			// starts on (possibly with other comments in between)?  Then it is a
			// trailing comment of that line (of the previous item, or of the
			// block's opening brace), not a lead comment of this item.
			k := j - 1
			for k >= 0 && isComment(toks[k]) && toks[k].Range.End.Line == toks[j].Range.Start.Line {
				k--
			}
			if k >= 0 && !isComment(toks[k]) && toks[k].Type != hclsyntax.TokenNewline &&
				toks[k].Range.End.Line == toks[j].Range.Start.Line {
				break
			}
			ls--
		}
		it := &aItem{}
		mk := func(a, b int) []tok {
			var r []tok
			for i := a; i <= b; i++ {
				r = append(r, mkTok(toks[i]))
				used[i] = true
			}
			return r
		}
		if e.attr != nil {
			it.name = e.attr.Name
			it.expr = e.attr.Expr
			end := li
			for end+1 < hi && isComment(toks[end+1]) && toks[end+1].Range.Start.Line == toks[li].Range.End.Line {
				end++
			}
			it.unit = mk(ls, end)
			er := e.attr.Expr.Range()
			for i := fi; i <= li; i++ {
				if toks[i].Range.Start.Byte >= er.Start.Byte && toks[i].Range.End.Byte <= er.End.Byte {
					it.exprTok = append(it.exprTok, mkTok(toks[i]))
				}
			}
		} else {
			bl := e.block
			it.isBlock = true
			it.name = bl.Type
			it.labels = append([]string{}, bl.Labels...)
			ob := idxAt(bl.OpenBraceRange.Start.Byte)
			cb := idxAt(bl.CloseBraceRange.Start.Byte)
			if ob < 0 || cb < 0 {
				continue
			}
			it.unit = mk(ls, ob)
			// single-line form: what follows the opening brace (possibly after
			// comments) is not a line end
			it.oneLine = true
			for i := ob + 1; i < cb; i++ {
				if toks[i].Type == hclsyntax.TokenNewline ||
					(isComment(toks[i]) && strings.HasSuffix(string(toks[i].Bytes), "\n")) {
					it.oneLine = false
					break
				}
				if !isComment(toks[i]) {
					break
				}
			}
			it.body = attrBody(bl.Body, toks, ob+1, cb)
			for i := ob + 1; i <= cb; i++ {
				used[i] = true
				if i < cb {
					nested[i] = true
				}
			}
			// a comment after the closing brace on the same line belongs to the block
			if cb+1 < hi && isComment(toks[cb+1]) && toks[cb+1].Range.Start.Line == toks[cb].Range.End.Line {
				used[cb+1] = true
			}
		}
		ab.items = append(ab.items, it)
	}
	for i := lo; i < hi; i++ {
		if !used[i] && isComment(toks[i]) {
			ab.free = append(ab.free, mkTok(toks[i]))
		}
		if isComment(toks[i]) && !nested[i] {
			ab.level = append(ab.level, mkTok(toks[i]))
		}
	}
	return ab
}

// isSubsequence reports whether every element of want occurs in have in order.
func isSubsequence(want, have []tok) bool {
	j := 0
	for _, h := range have {
		if j < len(want) && want[j] == h {
			j++
		}
	}
	return j == len(want)
}
