package main

import (
	"fmt"
	"strings"
	"unicode"
)

type rnd struct{ s uint64 }

func mix(seed, i uint64) uint64 {
	z := seed + (i+1)*0x9e3779b97f4a7c15
	z = (z ^ (z >> 30)) * 0xbf58476d1ce4e5b9
	z = (z ^ (z >> 27)) * 0x94d049bb133111eb
	return z ^ (z >> 31)
}

func (r *rnd) u64() uint64 {
	r.s += 0x9e3779b97f4a7c15
	z := r.s
	z = (z ^ (z >> 30)) * 0xbf58476d1ce4e5b9
	z = (z ^ (z >> 27)) * 0x94d049bb133111eb
	return z ^ (z >> 31)
}
func (r *rnd) n(n int) int {
	if n <= 0 {
		return 0
	}
	return int(r.u64() % uint64(n))
}
func (r *rnd) chance(num, den int) bool { return r.n(den) < num }
func (r *rnd) pick(ss ...string) string { return ss[r.n(len(ss))] }

// ---- pools ----

var attrNames = []string{"a", "b", "c", "name", "count", "for", "if", "null", "true", "in", "x-y", "ünï", "a1", "_u", "type", "dynamic", "content"}
var blockTypes = []string{"blk", "resource", "x", "for", "dynamic", "b-c", "Ω", "null", "a"}
var labelPool = []string{"l", "", "a b", "quo\"te", "new\nline", "${x}", "%{y}", "ü", "back\\slash", "tab\there", "l2", "$$", "a${b}c", "l3", "\U000E0001", "nul\x00l", "😀 emoji"}

// labels whose literal text contains an escaped-looking template introducer
var rareLabels = []string{"$${z", "%%{"}
var exprPool = []string{
	`1`, `"s"`, `true`, `null`, `-2.5e3`, `x`, `x.y`, `x.y[0]`, `x["k"].z`, `x.*.y`, `x[*].y.z`, `x.0`, `x.0.y`,
	`[1, 2, 3]`, `{ a = 1, b = "two" }`, `f(x, y...)`, `f()`, `"pre-${x.y}-post"`, `"%{ if c }yes%{ else }no%{ endif }"`,
	`c ? a : b`, `[for v in l : upper(v) if v != ""]`, `{for k, v in m : k => v...}`, `!a && (b || c)`, `a + b * -c`,
	`x[y.z][1]`, `f(g(h(1)))`, `"esc \" \\ $${ %%{ \n"`, `[
    1, # one
    2,
  ]`, `{
    k = v /* inline */
    "q" = [for i in l : i]
  }`, `(
    a +
    b
  )`, "<<EOT\nheredoc ${x} line\n  second\nEOT", "<<-EOT\n    indented ${y.z}\n    EOT", "<<EOT\n${x} at line start\n%{ if c }yes%{ endif }\nEOT", "<<-EOT\n  ${a.b}\n  EOT", `x != null ? x : "default"`, `a.b.c.d.e`, `l[length(l) - 1]`, `"${a}${b}"`, `"$${literal}"`, `1 == 1.0`, `a /* mid */ - b`, `f(/* arg */ x, !y)`, `total-used - 1`, `a[true]`, `a[null].b`, `[x[false], y]`, `"${m[true]}"`,
	`foo /* why */ .bar`, "(\n    foo\n    .bar[0]\n    .baz\n  )", `x [0] . y`, `f(a /* c */ [1] . b)`, "[1," + sp40 + "2]", "a +" + sp40 + sp40 + "b", `x` + sp40 + `.y`, "[for v in" + sp40 + "l : v]",
}

const sp40 = "                                        "

func genName(r *rnd) string { return attrNames[r.n(len(attrNames))] }

var commentN int

func cmt(r *rnd, n *int) string {
	*n++
	switch r.n(3) {
	case 0:
		return fmt.Sprintf("# c%d", *n)
	case 1:
		return fmt.Sprintf("// c%d", *n)
	}
	return fmt.Sprintf("/* c%d */", *n)
}

func genDBody(r *rnd, depth int, n *int) DBody {
	var b DBody
	used := map[string]bool{}
	cnt := r.n(5)
	if depth == 0 {
		cnt = 1 + r.n(6)
	}
	for i := 0; i < cnt; i++ {
		var it DItem
		if r.chance(1, 4) {
			it.Blank = 1 + r.n(2)
		}
		if r.chance(1, 6) {
			it.Free = []string{cmt(r, n)}
			if r.chance(1, 3) {
				it.Free = append(it.Free, cmt(r, n))
			}
		}
		if r.chance(1, 3) {
			it.Lead = []string{cmt(r, n)}
			if r.chance(1, 3) {
				it.Lead = append(it.Lead, cmt(r, n))
			}
		}
		if r.chance(1, 10) {
			*n++
			it.Inline = fmt.Sprintf("/* c%d */", *n)
		}
		if r.chance(1, 4) {
			it.LineCmt = cmt(r, n)
		}
		if r.chance(3, 5) || depth >= 2 {
			name := genName(r)
			for used[name] {
				name = fmt.Sprintf("%s%d", genName(r), r.n(100))
				if strings.ContainsAny(name, "-") {
					name = "n" + fmt.Sprint(r.n(1000))
				}
			}
			used[name] = true
			it.Name = name
			it.Eq = r.pick(" = ", " = ", "=", "   =   ", " =", "= ", sp40+"= ")
			it.Expr = exprPool[r.n(len(exprPool))]
			if strings.HasPrefix(it.Expr, "<<") {
				it.LineCmt = "" // nothing may follow a heredoc's closing marker
			}
			if r.chance(1, 12) {
				*n++
				it.EqCmt = fmt.Sprintf("/* c%d */", *n)
			}
		} else {
			it.Type = blockTypes[r.n(len(blockTypes))]
			nl := r.n(3)
			for k := 0; k < nl; k++ {
				l := DLabel{Text: genLabel(r)}
				if r.chance(1, 4) {
					l = DLabel{Text: r.pick("bare", "b2", "for", "ünï"), Bare: true}
				}
				it.Labels = append(it.Labels, l)
			}
			if r.chance(1, 8) {
				*n++
				it.PreLabel = fmt.Sprintf("/* c%d */", *n)
			}
			nb := genDBody(r, depth+1, n)
			it.Body = &nb
			if r.chance(1, 8) {
				it.OpenCmt = cmt(r, n)
				if r.chance(1, 3) {
					*n++
					it.OpenCmt = fmt.Sprintf("/* c%d */ ", *n) + cmt(r, n)
				}
			}
			if r.chance(1, 10) {
				*n++
				it.LabelCmt = fmt.Sprintf("/* c%d */", *n)
			}
			if r.chance(1, 8) {
				nb.Tail = []string{cmt(r, n)}
				if r.chance(1, 3) {
					nb.Tail = append(nb.Tail, cmt(r, n))
				}
			}
			if r.chance(1, 6) {
				// single-line block: at most one attribute, no comments inside
				it.OneLine = true
				it.OpenCmt = ""
				if r.chance(1, 6) {
					*n++
					it.OpenCmt = fmt.Sprintf("/* c%d\n   two lines */", *n)
				}
				var ob DBody
				if r.chance(2, 3) {
					ob.Items = []DItem{{Name: genName(r), Eq: " = ", Expr: r.pick(`1`, `"s"`, `x.y`, `[1, 2]`, `f(x)`, "{\n    k = 1\n  }", "[\n    1,\n    2,\n  ]", "(\n    a +\n    b\n  )")}}
				}
				it.Body = &ob
			}
		}
		b.Items = append(b.Items, it)
	}
	return b
}

func quoteLabel(s string) string {
	var b strings.Builder
	b.WriteByte('"')
	for _, c := range s {
		switch c {
		case '"':
			b.WriteString(`\"`)
		case '\\':
			b.WriteString(`\\`)
		case '\n':
			b.WriteString(`\n`)
		case '\t':
			b.WriteString(`\t`)
		default:
			switch {
			case unicode.IsPrint(c):
				b.WriteRune(c)
			case c < 0x10000:
				fmt.Fprintf(&b, "\\u%04x", c)
			default:
				fmt.Fprintf(&b, "\\U%08x", c)
			}
		}
	}
	b.WriteByte('"')
	// template introducers must be escaped in quoted labels
	s2 := b.String()
	s2 = strings.ReplaceAll(s2, "${", "$${")
	s2 = strings.ReplaceAll(s2, "%{", "%%{")
	return s2
}

func renderBody(b *DBody, ind string, nl string, sb *strings.Builder) {
	for _, it := range b.Items {
		for i := 0; i < it.Blank; i++ {
			sb.WriteString(nl)
		}
		for _, c := range it.Free {
			sb.WriteString(ind + c + nl)
		}
		if len(it.Free) > 0 {
			sb.WriteString(nl)
		}
		for _, c := range it.Lead {
			sb.WriteString(ind + c + nl)
		}
		sb.WriteString(ind)
		if it.Inline != "" {
			sb.WriteString(it.Inline + " ")
		}
		if it.Name != "" {
			sb.WriteString(it.Name + it.Eq)
			if it.EqCmt != "" {
				sb.WriteString(it.EqCmt + " ")
			}
			sb.WriteString(strings.ReplaceAll(it.Expr, "\n", nl))
		} else {
			sb.WriteString(it.Type)
			if it.PreLabel != "" {
				sb.WriteString(" " + it.PreLabel)
			}
			for li, l := range it.Labels {
				if li == len(it.Labels)-1 && li > 0 && it.LabelCmt != "" {
					sb.WriteString(" " + it.LabelCmt)
				}
				switch {
				case l.Raw != "":
					sb.WriteString(" " + l.Raw)
				case l.Bare:
					sb.WriteString(" " + l.Text)
				default:
					sb.WriteString(" " + quoteLabel(l.Text))
				}
			}
			if it.LabelCmt != "" && len(it.Labels) <= 1 {
				sb.WriteString(" " + it.LabelCmt)
			}
			if it.OneLine {
				sb.WriteString(" {")
				if it.OpenCmt != "" {
					sb.WriteString(" " + strings.ReplaceAll(it.OpenCmt, "\n", nl))
				}
				if it.Body != nil && len(it.Body.Items) > 0 {
					a := it.Body.Items[0]
					sb.WriteString(" " + a.Name + a.Eq + a.Expr + " ")
				}
				sb.WriteString("}")
			} else {
				sb.WriteString(" {")
				if it.OpenCmt != "" {
					sb.WriteString(" " + it.OpenCmt)
				}
				sb.WriteString(nl)
				if it.Body != nil {
					renderBody(it.Body, ind+"  ", nl, sb)
				}
				sb.WriteString(ind + "}")
			}
		}
		if it.LineCmt != "" {
			sb.WriteString(" " + it.LineCmt)
		}
		sb.WriteString(nl)
	}
	for _, c := range b.Tail {
		sb.WriteString(ind + c + nl)
	}
}

// Source renders the initial file.
func (in InitM) Source() string {
	if in.Kind == "empty" {
		return ""
	}
	nl := "\n"
	if in.CRLF {
		nl = "\r\n"
	}
	var sb strings.Builder
	renderBody(&in.Body, "", nl, &sb)
	s := sb.String()
	if in.TailCmt != "" {
		s += in.TailCmt + nl
	}
	if in.NoFinalNL {
		s = strings.TrimSuffix(s, nl)
	}
	return s
}

// ---- values, traversals, raw recipes ----

var strPool = []string{"", "plain", "with \"quotes\"", "back\\slash", "new\nline", "${interp}", "%{directive}", "$${escaped", "ünïcode ✓", "tab\t", "trailing$", "%", "$", "a${b}c%{d}e", "\r\n", "it's", "tag\U000E0001char", "\U0010FFFF", "zero\u200bwidth", "bell\a", "😀"}
var keyPool = []string{"-", "-v", "--force", "k", "a b", "for", "1x", "k2", "ü", "with.dot", "null", "\ufeffbom"}

func genV(r *rnd, d int) *V {
	switch k := r.n(11); {
	case k <= 2:
		if r.chance(1, 40) {
			// one token larger than any plausible I/O chunk
			return &V{K: "str", S: strings.Repeat("long string ", 420)}
		}
		return &V{K: "str", S: strPool[r.n(len(strPool))]}
	case k == 3:
		return &V{K: "num", N: int64(r.n(2000) - 1000)}
	case k == 4 && r.chance(1, 3):
		// whole numbers held at float64 precision
		return &V{K: "f64", S: r.pick("4611686018427387904", "1e23", "9007199254740993", "-1.8446744073709552e19", "1e300")}
	case k == 4:
		return &V{K: "numf", S: r.pick("1.5", "-0.25", "1e100", "123456789012345678901234567890", "0.1", "3.14159265358979", "1.0000000000000000001", "18446744073709551616.5", "1e-400", "-0.000000000000000000000000000001")}
	case k == 5:
		return &V{K: "bool", B: r.chance(1, 2)}
	case k == 6:
		return &V{K: "null", T: r.pick("string", "number", "any")}
	case k <= 8 && d > 0:
		v := &V{K: r.pick("list", "tuple")}
		n := r.n(4)
		for i := 0; i < n; i++ {
			v.L = append(v.L, *genV(r, d-1))
		}
		if n == 0 {
			v.K = "tuple"
		}
		return v
	case d > 0:
		v := &V{K: r.pick("obj", "map")}
		n := r.n(4)
		seen := map[string]bool{}
		for i := 0; i < n; i++ {
			k := keyPool[r.n(len(keyPool))]
			if seen[k] {
				continue
			}
			seen[k] = true
			v.Keys = append(v.Keys, k)
			v.L = append(v.L, *genV(r, d-1))
		}
		if len(v.L) == 0 {
			v.K = "obj"
		}
		return v
	}
	return &V{K: "str", S: "leaf"}
}

func genTrav(r *rnd) (string, []TravStep) {
	root := r.pick("var", "local", "x", "module", "ünï", "a1", "_u", "data")
	var st []TravStep
	n := r.n(4)
	for i := 0; i < n; i++ {
		switch r.n(7) {
		case 3:
			b := r.chance(1, 2)
			st = append(st, TravStep{Bool: &b})
		case 4:
			st = append(st, TravStep{Null: true})
		case 0, 5:
			st = append(st, TravStep{Attr: r.pick("y", "name", "for", "z9", "ü")})
		case 1:
			s := r.pick("k", "a b", "", "with \"q\"", "${x}")
			st = append(st, TravStep{Str: &s})
		default:
			v := int64(r.n(5))
			st = append(st, TravStep{Num: &v})
		}
	}
	return root, st
}

func genRaw(r *rnd, d int) *RawB {
	switch k := r.n(9); {
	case k <= 2 || d <= 0:
		src := exprPool[r.n(len(exprPool))]
		for d < 2 && (strings.HasPrefix(src, "<<") || strings.Contains(src, "#")) {
			src = exprPool[r.n(len(exprPool))] // heredocs and line comments only at top level (they need their line end)
		}
		rb := &RawB{Fn: "lex", Src: src}
		if r.chance(1, 12) {
			rb.KeepEOF = true // the scanner's end-of-file token left in, as LexExpression returns it
		}
		return rb
	case k == 3:
		rb := &RawB{Fn: "tuple"}
		for i := r.n(3); i > 0; i-- {
			rb.Args = append(rb.Args, *genRaw(r, d-1))
		}
		return rb
	case k == 4:
		rb := &RawB{Fn: "object"}
		for i := r.n(3); i > 0; i-- {
			rb.Keys = append(rb.Keys, RawB{Fn: "ident", Name: r.pick("k", "k2", "name")})
			if r.chance(1, 5) {
				// TokensForObject ends every member with a newline, so a
				// heredoc is a legitimate member value
				rb.Args = append(rb.Args, RawB{Fn: "lex", Src: r.pick("<<EOT\nobj ${o}\nEOT", "<<-EOT\n    in obj\n    EOT", "<<EOT\n${first}\nEOT")})
				continue
			}
			rb.Args = append(rb.Args, *genRaw(r, d-1))
		}
		return rb
	case k == 5:
		rb := &RawB{Fn: "call", Name: r.pick("f", "upper", "max")}
		for i := r.n(3); i > 0; i-- {
			rb.Args = append(rb.Args, *genRaw(r, d-1))
		}
		return rb
	case k == 6:
		return &RawB{Fn: "ident", Name: r.pick("v", "local", "ünï")}
	case k == 7:
		return &RawB{Fn: "value", Val: genV(r, 1)}
	default:
		root, st := genTrav(r)
		return &RawB{Fn: "trav", Root: root, Trav: st}
	}
}

func genLabel(r *rnd) string {
	if r.chance(1, 12) {
		return rareLabels[r.n(len(rareLabels))]
	}
	return labelPool[r.n(len(labelPool))]
}

// labels only ever handed to the API (never written into an initial file):
// spellings that are not in Unicode normal form C, and the names the initial
// files use for bare labels (so that a relabel can coincide with one)
var apiLabels = []string{"cafe\u0301", "\u212b", "\u1100\u1161", "bare", "b2", "for", "ünï"}

func genLabels(r *rnd) []string {
	n := r.n(3)
	var ls []string
	for i := 0; i < n; i++ {
		if r.chance(1, 8) {
			ls = append(ls, apiLabels[r.n(len(apiLabels))])
			continue
		}
		ls = append(ls, genLabel(r))
	}
	return ls
}

func genBodyOp(r *rnd, allowNested bool) OpM {
	var op OpM
	if r.chance(1, 4) {
		op.Via = "handle"
		op.Handle = r.n(1 << 16)
	} else {
		for i := r.n(3); i > 0; i-- {
			op.Path = append(op.Path, r.n(1<<16))
		}
	}
	op.Idx = r.n(1 << 16)
	op.Name = genName(r)
	if r.chance(1, 16) {
		op.Kind = "rename_prefix"
		op.K = r.n(1 << 10)
		op.Mode = r.n(3)
		op.Search = []string{r.pick("x", "var", "local", "a")}
		if r.chance(1, 2) {
			op.Search = append(op.Search, r.pick("y", "b", "list"))
		}
		return op
	}
	switch k := r.n(26); {
	case k <= 4:
		op.Kind = "set_value"
		op.Val = genV(r, 2)
	case k <= 6:
		op.Kind = "set_trav"
		op.Root, op.Trav = genTrav(r)
	case k <= 9:
		op.Kind = "set_raw"
		op.Raw = genRaw(r, 2)
	case k <= 11:
		op.Kind = "rename"
		op.Name2 = genName(r)
	case k <= 13:
		op.Kind = "remove_attr"
	case k <= 15:
		op.Kind = "append_new_block"
		op.Type = blockTypes[r.n(len(blockTypes))]
		op.Labels = genLabels(r)
	case k == 16 && allowNested:
		op.Kind = "append_fresh_block"
		op.Type = blockTypes[r.n(len(blockTypes))]
		op.Labels = genLabels(r)
		for i := r.n(3); i > 0; i-- {
			p := genBodyOp(r, false)
			p.Via, p.Path = "", nil
			if p.Kind == "append_held_block" || p.Kind == "hold" || p.Kind == "remove_block" || p.Kind == "clear" {
				continue
			}
			op.Pre = append(op.Pre, p)
		}
	case k == 17:
		op.Kind = "append_held_block"
		op.Handle = r.n(1 << 16)
	case k <= 19:
		op.Kind = "remove_block"
		op.Handle = r.n(1 << 16)
	case k <= 21:
		op.Kind = "set_type"
		op.Type = blockTypes[r.n(len(blockTypes))]
	case k <= 23:
		op.Kind = "set_labels"
		op.Labels = genLabels(r)
		if r.chance(1, 3) {
			op.Keep = 1 + r.n(2)
			if r.chance(1, 2) {
				op.Labels = nil
			}
		}
	case k == 24:
		op.Kind = "hold"
	default:
		op.Kind = "append_newline"
	}
	if op.Kind == "" {
		op.Kind = "set_value"
		op.Val = genV(r, 1)
	}
	return op
}

// genHistory draws a history.  profile "nofault": edits only; "fault": edits
// plus environment events (interleaved Bytes, save/reload, failing writers).
// sessionNames are the attribute names of the large bodies that session
// histories work on.
var sessionNames = func() []string {
	var ss []string
	for i := 0; i < 26; i++ {
		ss = append(ss, fmt.Sprintf("s%d", i))
	}
	return ss
}()

// genSession generates a long editing session on one large body: 12 to 26
// items to begin with, 30 to 90 operations most of which add, remove, rename
// and re-set items of that body, read back only now and then.  Size
// thresholds, compaction and caches that are consulted after many operations
// only come into play in such histories.
func genSession(r *rnd, h *History, deep bool) {
	n := 0
	if r.chance(3, 4) {
		h.Init.Kind = "parsed"
		cnt := 12 + r.n(15)
		for i := 0; i < cnt; i++ {
			var it DItem
			if r.chance(1, 6) {
				it.Lead = []string{cmt(r, &n)}
			}
			if r.chance(1, 8) {
				it.Blank = 1
			}
			if r.chance(3, 4) {
				it.Name = sessionNames[i]
				it.Eq = " = "
				it.Expr = r.pick("1", `"s"`, "x.y", "[1, 2]", "f(x)", `x["k"].z`)
				if r.chance(1, 6) {
					it.LineCmt = cmt(r, &n)
				}
			} else {
				it.Type = blockTypes[r.n(len(blockTypes))]
				if r.chance(1, 2) {
					it.Labels = []DLabel{{Text: fmt.Sprintf("l%d", i)}}
				}
				it.Body = &DBody{}
				if r.chance(1, 2) {
					it.Body.Items = []DItem{{Name: "a", Eq: " = ", Expr: "1"}}
				}
			}
			h.Init.Body.Items = append(h.Init.Body.Items, it)
		}
	} else {
		h.Init.Kind = "empty"
	}
	nops := 30 + r.n(60)
	if deep {
		nops = 60 + r.n(140)
	}
	h.Lazy = []int{0, 0, 2, 3, 5, 8}[r.n(6)]
	for i := 0; i < nops; i++ {
		if r.chance(1, 4) {
			op := genBodyOp(r, true)
			h.Ops = append(h.Ops, op)
			continue
		}
		if r.chance(1, 25) {
			h.Ops = append(h.Ops, OpM{Kind: r.pick("bytes", "save_reload")})
			continue
		}
		op := OpM{Idx: r.n(1 << 16), Name: sessionNames[r.n(len(sessionNames))]}
		if r.chance(1, 14) {
			op.Kind, op.K, op.Mode = "rename_prefix", r.n(1<<10), 1+r.n(2)
			h.Ops = append(h.Ops, op)
			continue
		}
		switch k := r.n(20); {
		case k <= 4:
			op.Kind = "remove_attr"
		case k <= 7:
			op.Kind = "set_value"
			op.Val = genV(r, 1)
		case k <= 8:
			op.Kind = "set_trav"
			op.Root, op.Trav = genTrav(r)
		case k <= 10:
			op.Kind = "rename"
			op.Name2 = sessionNames[r.n(len(sessionNames))]
		case k <= 13:
			op.Kind = "remove_block"
			op.Handle = r.n(1 << 16)
		case k <= 16:
			op.Kind = "append_new_block"
			op.Type = blockTypes[r.n(len(blockTypes))]
			op.Labels = genLabels(r)
		case k == 17:
			op.Kind = "append_held_block"
			op.Handle = r.n(1 << 16)
		case k == 18:
			op.Kind = "set_labels"
			op.Labels = genLabels(r)
		default:
			op.Kind = "set_type"
			op.Type = blockTypes[r.n(len(blockTypes))]
		}
		h.Ops = append(h.Ops, op)
		if op.Kind == "remove_block" && r.chance(1, 2) {
			h.Ops = append(h.Ops, genMove(r))
		}
	}
}

func genHistory(seed uint64, profile string, deep bool) *History {
	r := &rnd{s: mix(seed, 7)}
	h := &History{Property: "C12", Seed: seed}
	if r.chance(1, 10) {
		genSession(r, h, deep)
		return h
	}
	if r.chance(1, 6) {
		h.Lazy = []int{2, 3, 5}[r.n(3)]
	}
	if r.chance(1, 5) {
		h.Init.Kind = "empty"
	} else {
		h.Init.Kind = "parsed"
		n := 0
		h.Init.Body = genDBody(r, 0, &n)
		h.Init.CRLF = r.chance(1, 8)
		h.Init.NoFinalNL = r.chance(1, 6)
		if r.chance(1, 6) {
			h.Init.TailCmt = cmt(r, &n)
		}
		if k := len(h.Init.Body.Items); k > 0 && strings.HasPrefix(h.Init.Body.Items[k-1].Expr, "<<") && h.Init.TailCmt == "" {
			h.Init.NoFinalNL = false // a heredoc's closing marker needs its newline
		}
	}
	nops := r.n(9)
	if r.chance(1, 4) {
		nops = 8 + r.n(32)
	}
	if deep {
		// thorough tier: long histories
		nops = 20 + r.n(100)
	}
	envRate := 0
	if profile == "fault" {
		envRate = 1 + r.n(4) // out of 10
	}
	for i := 0; i < nops; i++ {
		if envRate > 0 && r.n(10) < envRate {
			var op OpM
			switch r.n(4) {
			case 0:
				op.Kind = "bytes"
			case 1:
				op.Kind = "save_reload"
			case 2:
				op.Kind = "write_error"
				op.K = r.n(120)
			default:
				op.Kind = "short_write"
				op.K = r.n(120)
			}
			h.Ops = append(h.Ops, op)
			continue
		}
		op := genBodyOp(r, true)
		h.Ops = append(h.Ops, op)
		if op.Kind == "remove_block" && r.chance(1, 2) {
			h.Ops = append(h.Ops, genMove(r))
			i++
		}
	}
	return h
}

// genMove is the second half of a block move: the block removed by the
// previous operation is appended to another body, up to three levels down.
func genMove(r *rnd) OpM {
	op := OpM{Kind: "append_held_block", Handle: -1}
	for i := r.n(4); i > 0; i-- {
		op.Path = append(op.Path, r.n(1<<16))
	}
	return op
}
