// c12worker executes simulated edit histories for property C12.
//
//	c12worker -base B -from I -to J -profile nofault|fault|mixed   (JSON lines on stdout)
//	c12worker -replay history.json
package main

import (
	"bufio"
	"encoding/json"
	"flag"
	"fmt"
	"os"
)

var out = bufio.NewWriterSize(os.Stdout, 1<<16)

func emit(v any) {
	b, err := json.Marshal(v)
	if err != nil {
		panic(err)
	}
	out.Write(b)
	out.WriteByte('\n')
	out.Flush()
}

type line struct {
	Ev      string   `json:"ev"`
	I       uint64   `json:"i"`
	Seed    uint64   `json:"seed"`
	Profile string   `json:"profile,omitempty"`
	Res     *Result  `json:"res,omitempty"`
	Hist    *History `json:"hist,omitempty"`
}

func profileFor(p string, i uint64) string {
	if p == "mixed" {
		if i%2 == 0 {
			return "nofault"
		}
		return "fault"
	}
	return p
}

func main() {
	base := flag.Uint64("base", 1, "batch seed")
	from := flag.Uint64("from", 0, "first run index")
	to := flag.Uint64("to", 1, "one past last run index")
	profile := flag.String("profile", "mixed", "nofault|fault|mixed")
	replay := flag.String("replay", "", "history file to execute")
	emitHist := flag.Bool("emithist", false, "attach the history to every result")
	deep := flag.Bool("deep", false, "deeper bounds (thorough tier): long histories")
	enum := flag.Bool("enum", false, "systematic mode: the run index selects (layout, op, op) from the enumeration instead of seeding a generator")
	enumSize := flag.Bool("enum-size", false, "print the size of the enumeration")
	genOnly := flag.Bool("genonly", false, "print the histories of the index range without executing them")
	stopOnFail := flag.Bool("stop", false, "stop at the first failing history")
	flag.Parse()

	if *enumSize {
		fmt.Println(enumPairs(), enumCount())
		return
	}
	if *replay != "" {
		b, err := os.ReadFile(*replay)
		if err != nil {
			fmt.Fprintln(os.Stderr, err)
			os.Exit(2)
		}
		h := &History{}
		if err := json.Unmarshal(b, h); err != nil {
			fmt.Fprintln(os.Stderr, err)
			os.Exit(2)
		}
		emit(line{Ev: "start", Seed: h.Seed})
		r := runHistory(h)
		emit(line{Ev: "end", Seed: h.Seed, Res: r})
		return
	}
	for i := *from; i < *to; i++ {
		seed := mix(*base, i) | 1
		p := profileFor(*profile, i)
		h := genHistory(seed, p, *deep)
		if *enum {
			h = enumHistory(i)
			seed = i
		}
		if *genOnly {
			emit(line{Ev: "gen", I: i, Seed: seed, Profile: p, Hist: h})
			continue
		}
		emit(line{Ev: "start", I: i, Seed: seed, Profile: p})
		r := runHistory(h)
		l := line{Ev: "end", I: i, Seed: seed, Profile: p, Res: r}
		bad := r.Verdict != "ok"
		if bad || *emitHist {
			l.Hist = h
		}
		if !bad {
			r.Source = ""
		}
		emit(l)
		if bad && *stopOnFail {
			os.Exit(3)
		}
	}
}
