package main

import "fmt"

// Systematic complement to the seeded search: every ordered pair of canonical
// operations applied to every canonical layout of a small initial file.  The
// enumeration index decides everything, so a history is as replayable as a
// seeded one.

func baseBody() DBody {
	inner := DBody{Items: []DItem{
		{Name: "x", Eq: " = ", Expr: `"in"`},
		{Type: "n", Body: &DBody{Items: []DItem{{Name: "y", Eq: " = ", Expr: `v.w`}}}},
	}}
	return DBody{Items: []DItem{
		{Name: "a", Eq: " = ", Expr: `1`},
		{Type: "b", Labels: []DLabel{{Text: "l1"}, {Text: "l2"}}, Body: &inner},
		{Name: "c", Eq: " = ", Expr: `x.y[0]`},
	}}
}

type layout struct {
	name  string
	apply func(in *InitM)
}

func itemFeature(name string, idx int, f func(it *DItem)) layout {
	return layout{fmt.Sprintf("%s@%d", name, idx), func(in *InitM) { f(&in.Body.Items[idx]) }}
}

func layouts() []layout {
	ls := []layout{{"plain", func(in *InitM) {}}}
	for i := 0; i < 3; i++ {
		i := i
		ls = append(ls,
			itemFeature("lead", i, func(it *DItem) { it.Lead = []string{"# lead"} }),
			itemFeature("lead2", i, func(it *DItem) { it.Lead = []string{"// l1", "/* l2 */"} }),
			itemFeature("free", i, func(it *DItem) { it.Free = []string{"# free"} }),
			itemFeature("blank", i, func(it *DItem) { it.Blank = 2 }),
			itemFeature("inline", i, func(it *DItem) { it.Inline = "/* in */" }),
			itemFeature("linecmt#", i, func(it *DItem) { it.LineCmt = "# lc" }),
			itemFeature("linecmt/*", i, func(it *DItem) { it.LineCmt = "/* lc */" }),
		)
	}
	for _, i := range []int{0, 2} {
		i := i
		ls = append(ls,
			itemFeature("eqcmt", i, func(it *DItem) { it.EqCmt = "/* eq */" }),
			itemFeature("tighteq", i, func(it *DItem) { it.Eq = "=" }),
			itemFeature("heredoc", i, func(it *DItem) { it.Expr = "<<EOT\nhd ${x}\nEOT" }),
			itemFeature("heredoc-indent", i, func(it *DItem) { it.Expr = "<<-EOT\n  ${x} hd\n  EOT" }),
			itemFeature("multiline", i, func(it *DItem) { it.Expr = "[\n  1, # one\n  2,\n]" }),
			itemFeature("object", i, func(it *DItem) { it.Expr = "{\n  k = v /* in */\n}" }),
			itemFeature("template", i, func(it *DItem) { it.Expr = `"a${b}c$${d}"` }),
			itemFeature("travcmt", i, func(it *DItem) { it.Expr = "foo /* why */ .bar[true]" }),
		)
	}
	blk := func(name string, f func(it *DItem)) layout { return itemFeature(name, 1, f) }
	ls = append(ls,
		blk("opencmt#", func(it *DItem) { it.OpenCmt = "# open" }),
		blk("opencmt/*", func(it *DItem) { it.OpenCmt = "/* open */" }),
		blk("prelabel", func(it *DItem) { it.PreLabel = "/* pre */" }),
		blk("labelcmt", func(it *DItem) { it.LabelCmt = "/* lab */" }),
		blk("barelabels", func(it *DItem) { it.Labels = []DLabel{{Text: "bare", Bare: true}, {Text: "l2"}} }),
		blk("nolabels", func(it *DItem) { it.Labels = nil }),
		blk("esclabel", func(it *DItem) { it.Labels = []DLabel{{Text: "a${b}"}, {Text: "q\"t"}} }),
		blk("tail", func(it *DItem) { it.Body.Tail = []string{"# tail"} }),
		blk("emptybody", func(it *DItem) { it.Body = &DBody{} }),
		blk("emptybody-tail", func(it *DItem) { it.Body = &DBody{Tail: []string{"// only"}} }),
		blk("oneline", func(it *DItem) {
			it.OneLine = true
			it.Body = &DBody{Items: []DItem{{Name: "x", Eq: " = ", Expr: `"in"`}}}
		}),
		blk("oneline-empty", func(it *DItem) { it.OneLine = true; it.Body = &DBody{} }),
		blk("inner-lead", func(it *DItem) { it.Body.Items[0].Lead = []string{"# il"} }),
		blk("inner-linecmt", func(it *DItem) { it.Body.Items[0].LineCmt = "# ilc" }),
		blk("inner-blank", func(it *DItem) { it.Body.Items[1].Blank = 1 }),
		blk("nested-opencmt", func(it *DItem) { it.Body.Items[1].OpenCmt = "# no" }),
		layout{"crlf", func(in *InitM) { in.CRLF = true }},
		layout{"nofinalnl", func(in *InitM) { in.NoFinalNL = true }},
		layout{"nofinalnl-linecmt", func(in *InitM) { in.NoFinalNL = true; in.Body.Items[2].LineCmt = "# end" }},
		layout{"tailcmt", func(in *InitM) { in.TailCmt = "# eof" }},
		layout{"tailcmt-nofinalnl", func(in *InitM) { in.TailCmt = "// eof"; in.NoFinalNL = true }},
		layout{"block-last", func(in *InitM) { in.Body.Items = in.Body.Items[:2] }},
		layout{"block-last-nofinalnl", func(in *InitM) { in.Body.Items = in.Body.Items[:2]; in.NoFinalNL = true }},
		layout{"block-first", func(in *InitM) { in.Body.Items = in.Body.Items[1:] }},
		layout{"only-block", func(in *InitM) { in.Body.Items = in.Body.Items[1:2] }},
		layout{"only-attr", func(in *InitM) { in.Body.Items = in.Body.Items[:1] }},
	)
	return ls
}

func strp(s string) *string { return &s }
func i64p(i int64) *int64   { return &i }

// canonOps: addressed at the root body, at the block's body (path [0]) or at
// the nested block's body (path [0,0]).
func canonOps() []OpM {
	str := &V{K: "str", S: "v${x}"}
	obj := &V{K: "obj", Keys: []string{"k", "for"}, L: []V{{K: "num", N: -3}, {K: "list", L: []V{{K: "bool", B: true}}}}}
	hd := &RawB{Fn: "lex", Src: "<<EOT\nraw ${r}\nEOT"}
	ml := &RawB{Fn: "object", Keys: []RawB{{Fn: "ident", Name: "k"}, {Fn: "ident", Name: "l"}}, Args: []RawB{{Fn: "lex", Src: "<<EOT\nobj ${o}\nEOT"}, {Fn: "lex", Src: "[\n  1,\n  2,\n]"}}}
	tru := true
	tr := []TravStep{{Attr: "f"}, {Str: strp("k")}, {Num: i64p(2)}, {Bool: &tru}, {Null: true}}
	in1, in2 := []int{0}, []int{0, 0}
	return []OpM{
		{Kind: "set_value", Name: "a", Val: str},
		{Kind: "set_value", Name: "c", Val: obj},
		{Kind: "set_value", Name: "z", Val: str},
		{Kind: "set_value", Name: "x", Val: obj, Path: in1},
		{Kind: "set_value", Name: "z", Val: str, Path: in1},
		{Kind: "set_value", Name: "y", Val: str, Path: in2},
		{Kind: "set_trav", Name: "a", Root: "var", Trav: tr},
		{Kind: "set_trav", Name: "z", Root: "var", Trav: tr, Path: in1},
		{Kind: "rename_prefix", Name: "a", Mode: 1, K: 1},
		{Kind: "rename_prefix", Name: "a", Mode: 2, K: 2},
		{Kind: "set_raw", Name: "c", Raw: hd},
		{Kind: "set_raw", Name: "a", Raw: ml},
		{Kind: "set_raw", Name: "x", Raw: hd, Path: in1},
		{Kind: "set_raw", Name: "z", Raw: ml, Path: in2},
		{Kind: "rename", Name: "a", Name2: "z"},
		{Kind: "rename", Name: "a", Name2: "c"},
		{Kind: "rename", Name: "x", Name2: "w", Path: in1},
		{Kind: "remove_attr", Name: "a"},
		{Kind: "remove_attr", Name: "c"},
		{Kind: "remove_attr", Name: "x", Path: in1},
		{Kind: "remove_attr", Name: "y", Path: in2},
		{Kind: "append_new_block", Type: "nb", Labels: []string{"q\"l"}},
		{Kind: "append_new_block", Type: "nb", Path: in1},
		{Kind: "append_new_block", Type: "nb", Labels: []string{"", "${x}"}, Path: in2},
		{Kind: "append_fresh_block", Type: "fb", Labels: []string{"l"}, Pre: []OpM{{Kind: "set_value", Name: "p", Val: str}, {Kind: "append_new_block", Type: "in"}}},
		{Kind: "append_fresh_block", Type: "fb", Path: in1, Pre: []OpM{{Kind: "set_trav", Name: "p", Root: "v"}}},
		{Kind: "remove_block", Idx: 0},
		{Kind: "remove_block", Idx: 0, Path: in1},
		{Kind: "append_held_block", Handle: 0},
		{Kind: "append_held_block", Handle: 0, Path: in1},
		{Kind: "set_type", Idx: 0, Type: "t2"},
		{Kind: "set_type", Idx: 0, Type: "t-3", Path: in1},
		{Kind: "set_labels", Idx: 0, Labels: nil},
		{Kind: "set_labels", Idx: 0, Labels: []string{"one"}},
		{Kind: "set_labels", Idx: 0, Labels: []string{"a b", "$${c", "new\nline"}},
		{Kind: "set_labels", Idx: 0, Labels: []string{"n"}, Path: in1},
		{Kind: "set_labels", Idx: 0, Keep: 1},
		{Kind: "set_labels", Idx: 0, Keep: 1, Labels: []string{"cafe\u0301"}},
		{Kind: "append_newline"},
		{Kind: "append_newline", Path: in1},
		{Kind: "hold", Idx: 0},
		{Kind: "set_value", Name: "h", Val: str, Via: "handle", Handle: 0},
		{Kind: "remove_attr", Name: "x", Via: "handle", Handle: 0},
		{Kind: "save_reload"},
		{Kind: "bytes"},
	}
}

var enumLayouts = layouts()
var enumOps = canonOps()

// tripleLayouts are the layouts on which every ordered TRIPLE of canonical
// operations is enumerated as well (thorough tier).
var tripleLayouts = func() []int {
	want := map[string]bool{"plain": true, "lead@0": true, "linecmt#@2": true, "opencmt#@1": true, "oneline@1": true,
		"oneline-empty@1": true, "nofinalnl": true, "tailcmt-nofinalnl": true, "block-last-nofinalnl": true,
		"emptybody@1": true, "heredoc@0": true, "only-block": true}
	var idx []int
	for i, l := range enumLayouts {
		if want[l.name] {
			idx = append(idx, i)
		}
	}
	return idx
}()

func enumPairs() uint64 {
	n := uint64(len(enumOps))
	return uint64(len(enumLayouts)) * n * n
}

func enumCount() uint64 {
	n := uint64(len(enumOps))
	return enumPairs() + uint64(len(tripleLayouts))*n*n*n
}

// enumHistory builds the idx-th history of the enumeration (idx is taken
// modulo the size of the space).
func enumHistory(idx uint64) *History {
	idx %= enumCount()
	n := uint64(len(enumOps))
	if idx >= enumPairs() {
		t := idx - enumPairs()
		li := tripleLayouts[t/(n*n*n)]
		o1, o2, o3 := (t/(n*n))%n, (t/n)%n, t%n
		h := &History{Property: "C12", Seed: idx, Note: fmt.Sprintf("enumerated: layout %s, ops %d, %d, %d", enumLayouts[li].name, o1, o2, o3)}
		h.Init = InitM{Kind: "parsed", Body: baseBody()}
		enumLayouts[li].apply(&h.Init)
		h.Ops = []OpM{enumOps[o1], enumOps[o2], enumOps[o3]}
		return h
	}
	li, o1, o2 := idx/(n*n), (idx/n)%n, idx%n
	h := &History{Property: "C12", Seed: idx, Note: fmt.Sprintf("enumerated: layout %s, ops %d then %d", enumLayouts[li].name, o1, o2)}
	h.Init = InitM{Kind: "parsed", Body: baseBody()}
	enumLayouts[li].apply(&h.Init)
	h.Ops = []OpM{enumOps[o1], enumOps[o2]}
	return h
}
