// Copy this file into the package directory hclwrite/ (it is an external
// test package, hclwrite_test) and run:
//
//	GOFLAGS=-mod=mod GOPROXY=off GOTOOLCHAIN=auto go test -vet=off -count=1 -run 'TestDemoAppendTokensToSingleLineBlock' ./hclwrite/
package hclwrite_test

import (
	"testing"

	"github.com/hashicorp/hcl/v2"
	"github.com/hashicorp/hcl/v2/hclsyntax"
	"github.com/hashicorp/hcl/v2/hclwrite"
)

func TestDemoAppendTokensToSingleLineBlock(t *testing.T) {
	newline := func() *hclwrite.Token {
		return &hclwrite.Token{Type: hclsyntax.TokenNewline, Bytes: []byte("\n")}
	}
	tests := map[string]hclwrite.Tokens{
		// a line end followed by something that does not end a line
		"newline then inline comment": {
			newline(),
			{Type: hclsyntax.TokenComment, Bytes: []byte("/* managed */")},
		},
		"line comment then inline comment": {
			{Type: hclsyntax.TokenComment, Bytes: []byte("# managed\n")},
			{Type: hclsyntax.TokenComment, Bytes: []byte("/* end */")},
		},
		// control: the sequence ends with the line end
		"inline comment then newline": {
			{Type: hclsyntax.TokenComment, Bytes: []byte("/* managed */")},
			newline(),
		},
		// control: no line end at all
		"inline comment only": {
			{Type: hclsyntax.TokenComment, Bytes: []byte("/* managed */")},
		},
	}

	for name, toks := range tests {
		t.Run(name, func(t *testing.T) {
			f, diags := hclwrite.ParseConfig([]byte("service { port = 80 }\nother = 1\n"), "in.hcl", hcl.InitialPos)
			if diags.HasErrors() {
				t.Fatal(diags.Error())
			}
			body := f.Body().Blocks()[0].Body()
			body.AppendUnstructuredTokens(toks)

			out := f.Bytes()
			pf, diags := hclsyntax.ParseConfig(out, "out.hcl", hcl.InitialPos)
			if diags.HasErrors() {
				t.Fatalf("output does not parse: %s\n---\n%s---", diags.Error(), out)
			}
			pb := pf.Body.(*hclsyntax.Body)
			if len(pb.Blocks) != 1 || len(pb.Blocks[0].Body.Attributes) != 1 || pb.Blocks[0].Body.Attributes["port"] == nil {
				t.Errorf("block content changed:\n---\n%s---", out)
			}
			if pb.Attributes["other"] == nil {
				t.Errorf("attribute 'other' lost:\n---\n%s---", out)
			}
		})
	}
}
