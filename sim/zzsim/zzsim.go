// Package zzsim is the deterministic scheduler that the instrumented copy of
// hashicorp/hcl runs under.  It is copied into the scratch copy of the
// repository by /verif/bin/check; it is never part of /repo.
//
// Real goroutines, one baton: exactly one task goroutine executes at any
// instant; every other task spins in waitBaton.  All scheduler state is touched
// only from //go:norace functions through plain loads and stores, so the Go
// race detector sees no happens-before edge created by the scheduler and keeps
// reporting genuine races in the code under test while the interleaving is
// decided by a PRNG (or by a recorded schedule on replay).
package zzsim

import (
	"os"
	"runtime"
	_ "unsafe"
)

// Provided by the patched runtime (go build -overlay), pushed with go:linkname.
//
//go:linkname setMapSalt
func setMapSalt(s uint64)

//go:linkname goid
func goid() uint64

//go:linkname setPoolDrop
func setPoolDrop(b bool)

// SetPoolDrop decides whether sync.Pool retains items (false) or drops every
// item put into it (true, the default of the simulation binary).
func SetPoolDrop(b bool) { setPoolDrop(b) }

const MaxTasks = 8

// Modes of the simulator.
const (
	ModeOff    = 0 // Yield returns immediately
	ModeCount  = 1 // Yield only counts steps (solo reference runs)
	ModeActive = 2 // scheduler decides
)

// Strategies.
const (
	StratRandom = 0
	StratPCT    = 1
	StratRR     = 2
	StratStarve = 3
	StratReplay = 4
)

// Verdict codes used as process exit codes for abnormal terminations decided by
// the scheduler itself (the worker protocol maps them back).
const (
	ExitDeadlock   = 70
	ExitBudget     = 71
	ExitDiscipline = 72
	ExitInternal   = 73
)

const (
	stRunnable = 1
	stBlocked  = 2
	stDone     = 3
)

type task struct {
	goid    uint64
	state   uint8
	waitOn  *LockState
	waitW   bool
	granted bool
	held    int32
	prio    int64
	started bool
	killed  bool
	// splat windows (locks of AnonSymbolExpr whose value this task has set and not yet cleared)
	win     [16]*LockState
	nwin    int
	last    uint32 // last site yielded at
	waitOnc *OnceState
	op      int32
	local   uint64
	// waiting on a channel (polling): spinAt is the value of the progress
	// counter when the task last found the channel not ready
	spinning  bool
	spinAt    uint64
	idleSpins int
}

// Switch is one entry of a recorded or replayed schedule: when task From is at
// its Local-th decision point inside its op number Op, the baton moves to task
// To.  Positions are task-local so that removing other tasks' work (during
// minimisation) leaves an entry meaningful.  From == -1 marks the initial
// choice.  Forced: From blocked or finished there (it could not have
// continued).
type Switch struct {
	From   int    `json:"from"`
	Op     int32  `json:"op"`
	Local  uint64 `json:"local"`
	To     int    `json:"to"`
	Forced bool   `json:"forced,omitempty"`
}

// Config describes one run.
type Config struct {
	Seed      uint64
	Strategy  int
	SwitchInv uint64 // random: switch with probability 1/SwitchInv at a plain yield
	BoostInv  uint64 // at sync/callback decision points
	PCTDepth  int
	EstSteps  uint64 // estimated total steps (for PCT change points, starvation length)
	Quantum   uint64 // round robin
	Victim    int    // starve
	StarveTo  uint64
	Budget    uint64
	Replay    []Switch
	MapSalt   uint64
	// RecordBoosted asks for the list of boosted decision points (sync,
	// atomic and callback boundaries) each task passed: the positions the
	// two-preemption systematic search places its switches at.
	RecordBoosted bool
}

// Stats is what a run reports back.
type Stats struct {
	Steps          uint64
	Switches       uint64
	Preemptions    uint64
	Decisions      uint64
	TraceHash      uint64
	SyncHash       uint64
	SyncEvents     uint64
	AtomicPoints   uint64 // decision points at sync.Map / sync.Pool / sync/atomic operations
	ChanWaits      uint64 // times a task found a channel operation not ready and let others run
	Blocked        uint64
	ReaderPendingW uint64
	OverlapSame    uint64
	PreemptInWin   uint64
	Foreign        uint64
	Infeasible     uint64
	Schedule       []Switch
	PreemptShapes  []uint64
	Verdict        string
	// LocalMax[t][o] is the number of decision points task t passed inside its
	// op o (o < 8): the positions a bounded systematic search can preempt at.
	LocalMax [MaxTasks][8]uint64
	// BoostedPts is filled only when Config.RecordBoosted is set.
	BoostedPts []BoostPt `json:",omitempty"`
}

// BoostPt names one boosted decision point: the Local-th decision point of
// task Task inside its op Op.
type BoostPt struct {
	Task  int32
	Op    int32
	Local uint64
}

var (
	mode   int
	cur    int
	ntasks int
	tasks  [MaxTasks]task
	cfg    Config
	rng    uint64
	steps  uint64
	st     Stats
	rq     [MaxTasks][]Switch
	rpos   [MaxTasks]int
	pctChg [8]uint64
	rrLeft uint64
	alive  int

	lockEpoch uint32
	lockOrd   int32

	// progress counts decision points passed by tasks that are not waiting
	// on a channel: a waiting task that finds it unchanged since it last
	// looked knows that nobody has done anything in between
	progress uint64

	siteSet   uint32 = ^uint32(0)
	siteClear uint32 = ^uint32(0)

	// DieHook is called (from scheduler context) just before the process exits
	// with one of the Exit* codes, so the worker can flush its in-flight record.
	DieHook func(verdict string, detail string)
)

//go:norace
func next() uint64 {
	rng += 0x9e3779b97f4a7c15
	z := rng
	z = (z ^ (z >> 30)) * 0xbf58476d1ce4e5b9
	z = (z ^ (z >> 27)) * 0x94d049bb133111eb
	return z ^ (z >> 31)
}

// Mix derives an independent 64-bit value from a seed and a stream index
// (splitmix64 finaliser); used by the harness for every derived choice.
func Mix(seed, i uint64) uint64 {
	z := seed + (i+1)*0x9e3779b97f4a7c15
	z = (z ^ (z >> 30)) * 0xbf58476d1ce4e5b9
	z = (z ^ (z >> 27)) * 0x94d049bb133111eb
	return z ^ (z >> 31)
}

// SetMapSalt fixes the value the patched runtime returns from runtime.rand,
// i.e. every map seed and iteration offset from now on.
//
//go:norace
func SetMapSalt(s uint64) { setMapSalt(s) }

// Goid returns the current goroutine's id (patched runtime).
func Goid() uint64 { return goid() }

// SetMode switches between off / count / active outside a run.
//
//go:norace
func SetMode(m int) { mode = m; steps = 0 }

// Steps returns the step counter (ModeCount use).
//
//go:norace
func Steps() uint64 { return steps }

//go:norace
func die(code int, verdict, detail string) {
	st.Verdict = verdict
	st.Steps = steps
	if DieHook != nil {
		h := DieHook
		DieHook = nil
		mode = ModeOff
		h(verdict, detail)
	}
	os.Exit(code)
}

// Yield is the call the instrumenter inserts at the top of every function
// body of the library.
//
//go:norace
func Yield(site uint32) {
	if mode == ModeOff {
		return
	}
	if mode == ModeCount {
		steps++
		return
	}
	if goid() != tasks[cur].goid {
		st.Foreign++
		return
	}
	point(site, false)
}

// Decision is a yield with a raised switch probability; used around
// application callbacks and by simsync.
//
//go:norace
func Decision(site uint32) {
	if mode != ModeActive {
		if mode == ModeCount {
			steps++
		}
		return
	}
	if goid() != tasks[cur].goid {
		st.Foreign++
		return
	}
	point(site, true)
}

//go:norace
func point(site uint32, boosted bool) {
	steps++
	progress++
	t := &tasks[cur]
	t.last = site
	t.local++
	if t.op >= 0 && t.op < 8 {
		st.LocalMax[cur][t.op] = t.local
	}
	st.TraceHash = (st.TraceHash ^ (uint64(site)<<4 | uint64(cur))) * 0x100000001b3
	if boosted && cfg.RecordBoosted && t.op >= 0 && len(st.BoostedPts) < 4096 {
		st.BoostedPts = append(st.BoostedPts, BoostPt{Task: int32(cur), Op: int32(t.op), Local: t.local})
	}
	if steps > cfg.Budget {
		die(ExitBudget, "budget", "step budget exceeded")
	}
	nxt := choose(boosted)
	if nxt != cur {
		st.Preemptions++
		if t.nwin > 0 {
			st.PreemptInWin++
		}
		if len(st.PreemptShapes) < 4096 {
			st.PreemptShapes = append(st.PreemptShapes, uint64(site)<<8|uint64(cur)<<4|uint64(nxt))
		}
		handTo(nxt, false)
	}
}

// choose returns the task that should run next at a non-forced decision point
// (cur is runnable).
//
//go:norace
func choose(boosted bool) int {
	st.Decisions++
	switch cfg.Strategy {
	case StratReplay:
		if e := replayEntry(false); e != nil {
			if e.To >= 0 && e.To < ntasks && tasks[e.To].state == stRunnable {
				return e.To
			}
			st.Infeasible++
		}
		return cur
	case StratRandom, StratStarve:
		inv := cfg.SwitchInv
		if boosted {
			inv = cfg.BoostInv
		}
		if inv == 0 {
			inv = 1
		}
		if next()%inv != 0 {
			return cur
		}
		return pickOther()
	case StratRR:
		if rrLeft > 0 {
			rrLeft--
			return cur
		}
		rrLeft = cfg.Quantum
		for i := 1; i <= ntasks; i++ {
			c := (cur + i) % ntasks
			if tasks[c].state == stRunnable {
				return c
			}
		}
		return cur
	case StratPCT:
		for i := 0; i < cfg.PCTDepth && i < len(pctChg); i++ {
			if pctChg[i] == steps {
				tasks[cur].prio = -int64(i) - 1
			}
		}
		return highestPrio()
	}
	return cur
}

//go:norace
func starved(i int) bool {
	return cfg.Strategy == StratStarve && i == cfg.Victim && steps < cfg.StarveTo
}

// pickOther picks a runnable task different from cur uniformly (cur if none).
//
//go:norace
func pickOther() int {
	n := 0
	for i := 0; i < ntasks; i++ {
		if i != cur && tasks[i].state == stRunnable && !starved(i) {
			n++
		}
	}
	if n == 0 {
		return cur
	}
	k := int(next() % uint64(n))
	for i := 0; i < ntasks; i++ {
		if i != cur && tasks[i].state == stRunnable && !starved(i) {
			if k == 0 {
				return i
			}
			k--
		}
	}
	return cur
}

//go:norace
func highestPrio() int {
	best := -1
	for i := 0; i < ntasks; i++ {
		if tasks[i].state == stRunnable {
			if best < 0 || tasks[i].prio > tasks[best].prio {
				best = i
			}
		}
	}
	if best < 0 {
		return cur
	}
	return best
}

// forcedNext picks who runs when cur cannot continue (blocked or done).
// Returns -1 if nobody is runnable.
//
//go:norace
func forcedNext() int {
	n := 0
	for i := 0; i < ntasks; i++ {
		if tasks[i].state == stRunnable {
			n++
		}
	}
	if n == 0 {
		return -1
	}
	switch cfg.Strategy {
	case StratReplay:
		if e := replayEntry(true); e != nil {
			if e.To >= 0 && e.To < ntasks && tasks[e.To].state == stRunnable {
				return e.To
			}
			st.Infeasible++
		}
		for i := 0; i < ntasks; i++ {
			if tasks[i].state == stRunnable {
				return i
			}
		}
	case StratPCT:
		return highestPrio()
	case StratRR:
		rrLeft = cfg.Quantum
		for i := 1; i <= ntasks; i++ {
			c := (cur + i) % ntasks
			if tasks[c].state == stRunnable {
				return c
			}
		}
	}
	// random / starve: prefer non-starved
	m := 0
	for i := 0; i < ntasks; i++ {
		if tasks[i].state == stRunnable && !starved(i) {
			m++
		}
	}
	useStarved := m == 0
	if useStarved {
		m = n
	}
	k := int(next() % uint64(m))
	for i := 0; i < ntasks; i++ {
		if tasks[i].state == stRunnable && (useStarved || !starved(i)) {
			if k == 0 {
				return i
			}
			k--
		}
	}
	return -1
}

// replayEntry consumes and returns the recorded entry for the current task's
// current position, if there is one of the wanted kind.
//
//go:norace
func replayEntry(forced bool) *Switch {
	q := rq[cur]
	t := &tasks[cur]
	for rpos[cur] < len(q) {
		e := &q[rpos[cur]]
		if e.Op < t.op || (e.Op == t.op && e.Local < t.local) {
			rpos[cur]++ // position already passed: stale entry
			continue
		}
		if e.Op == t.op && e.Local == t.local {
			if e.Forced == forced {
				rpos[cur]++
				return e
			}
			if e.Forced && !forced {
				return nil // the forced entry waits for the forced point
			}
			rpos[cur]++ // a non-forced entry at a forced point: drop it
			continue
		}
		return nil
	}
	return nil
}

// handTo moves the baton and, unless the caller is finished, waits to get it
// back.
//
//go:norace
func handTo(nxt int, forced bool) {
	me := cur
	st.Switches++
	if len(st.Schedule) < 1<<16 {
		st.Schedule = append(st.Schedule, Switch{From: me, Op: tasks[me].op, Local: tasks[me].local, To: nxt, Forced: forced})
	}
	cur = nxt
	if tasks[me].state != stDone {
		waitBaton(me)
	}
}

//go:norace
func waitBaton(me int) {
	for cur != me {
		runtime.Gosched()
	}
}

// blockCur parks the current task until something makes it runnable again and
// the scheduler picks it.
//
//go:norace
func blockCur() {
	me := cur
	tasks[me].state = stBlocked
	st.Blocked++
	nxt := forcedNext()
	if nxt < 0 {
		die(ExitDeadlock, "deadlock", "all unfinished tasks are blocked")
	}
	handTo(nxt, true)
}

// Run executes fns as tasks under the scheduler and returns when all have
// finished (returned, or died through runtime.Goexit).  It must be called from a
// goroutine that is not itself a task.  join is called by the caller after Run
// to obtain a real happens-before edge from the tasks (e.g. sync.WaitGroup).
//
//go:norace
func Run(c Config, fns []func()) Stats {
	if len(fns) > MaxTasks {
		panic("zzsim: too many tasks")
	}
	cfg = c
	if cfg.Budget == 0 {
		cfg.Budget = 1 << 40
	}
	rng = c.Seed ^ 0x5bd1e9955bd1e995
	steps = 0
	st = Stats{}
	for i := range rq {
		rq[i] = nil
		rpos[i] = 0
	}
	rrLeft = cfg.Quantum
	ntasks = len(fns)
	alive = ntasks
	lockEpoch++
	lockOrd = 0
	for i := range tasks {
		tasks[i] = task{}
	}
	for i := 0; i < ntasks; i++ {
		tasks[i].state = stRunnable
		tasks[i].prio = int64(next()>>1) | 1<<40
	}
	if cfg.Strategy == StratPCT {
		est := cfg.EstSteps
		if est < 4 {
			est = 4
		}
		for i := 0; i < cfg.PCTDepth && i < len(pctChg); i++ {
			pctChg[i] = 1 + next()%est
		}
	}
	done := make(chan struct{})
	cur = -1
	for i := 0; i < ntasks; i++ {
		go taskMain(i, fns[i], done)
	}
	first := 0
	if cfg.Strategy == StratReplay {
		for _, e := range cfg.Replay {
			if e.From < 0 {
				if e.To >= 0 && e.To < ntasks {
					first = e.To
				}
			} else if e.From < ntasks {
				rq[e.From] = append(rq[e.From], e)
			}
		}
	} else if cfg.Strategy == StratPCT {
		first = highestPrio()
	} else {
		first = int(next() % uint64(ntasks))
		if starved(first) && ntasks > 1 {
			first = (first + 1) % ntasks
		}
	}
	st.Schedule = append(st.Schedule, Switch{From: -1, To: first, Forced: true})
	mode = ModeActive
	cur = first
	<-done
	mode = ModeOff
	st.Steps = steps
	out := st
	return out
}

func taskMain(i int, fn func(), done chan struct{}) {
	defer taskExit(i, done)
	taskEnter(i)
	fn()
}

//go:norace
func taskEnter(i int) {
	waitBaton(i)
	tasks[i].goid = goid()
	tasks[i].started = true
}

//go:norace
func taskExit(i int, done chan struct{}) {
	// Runs on normal return and on runtime.Goexit.  A panic escaping a task is
	// a harness bug (ops recover); let it crash the process.
	if cur != i || mode != ModeActive {
		die(ExitInternal, "internal", "task exit without baton")
	}
	t := &tasks[i]
	if t.held != 0 {
		die(ExitDiscipline, "lock_discipline", "task finished while holding a lock")
	}
	t.state = stDone
	alive--
	if alive == 0 {
		mode = ModeOff
		close(done)
		return
	}
	nxt := forcedNext()
	if nxt < 0 {
		die(ExitDeadlock, "deadlock", "all unfinished tasks are blocked")
	}
	handTo(nxt, true)
}

// OpStart tells the scheduler that the current task begins its op number i;
// schedule positions are relative to it.
//
//go:norace
func OpStart(i int) {
	if mode != ModeActive {
		return
	}
	if goid() != tasks[cur].goid {
		return
	}
	tasks[cur].op = int32(i)
	tasks[cur].local = 0
}

// Cur returns the id of the running task, or -1 outside a run.
//
//go:norace
func Cur() int {
	if mode != ModeActive {
		return -1
	}
	if goid() != tasks[cur].goid {
		return -1
	}
	return cur
}

// InWindow reports whether the current task has an open splat window.
//
//go:norace
func InWindow() bool {
	if mode != ModeActive {
		return false
	}
	return tasks[cur].nwin > 0
}

// RegisterSites lets the generated site table name the sites that open and
// close a splat window.
func RegisterSites(names []string) {
	for i, n := range names {
		switch {
		case hasSuffixFunc(n, "(*AnonSymbolExpr).setValue"):
			siteSet = uint32(i)
		case hasSuffixFunc(n, "(*AnonSymbolExpr).clearValue"):
			siteClear = uint32(i)
		}
	}
}

func hasSuffixFunc(n, f string) bool {
	// names look like "hclsyntax.(*AnonSymbolExpr).setValue@expression.go:2017"
	for i := 0; i < len(n); i++ {
		if n[i] == '@' {
			n = n[:i]
			break
		}
	}
	return len(n) >= len(f) && n[len(n)-len(f):] == f
}

// Snapshot returns the statistics of the run in progress (for DieHook).
//
//go:norace
func Snapshot() Stats {
	s := st
	s.Steps = steps
	return s
}
