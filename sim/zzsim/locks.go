package zzsim

import "runtime"

// Simulated state of the blocking primitives of package sync.  The simsync
// wrappers call these before (acquire) and after (release) performing the
// operation on an embedded real sync primitive, which at that point cannot
// block and which gives the race detector the genuine acquire/release edge.

// LockState is the scheduler's view of one Mutex or RWMutex.  The zero value
// is an unlocked lock.
type LockState struct {
	writer   int32 // task id + 1, 0 = none
	readers  int32
	pendingW int32
	epoch    uint32
	ord      int32
}

// sync event kinds (for the interleaving hash)
const (
	evLock    = 1
	evUnlock  = 2
	evRLock   = 3
	evRUnlock = 4
	evOnce    = 5
)

//go:norace
func syncEvent(l *LockState, kind uint64) {
	if l.epoch != lockEpoch {
		l.epoch = lockEpoch
		lockOrd++
		l.ord = lockOrd
	}
	st.SyncEvents++
	st.SyncHash = (st.SyncHash ^ (uint64(l.ord)<<8 | kind<<4 | uint64(cur))) * 0x100000001b3
}

//go:norace
func simTask() bool {
	if mode != ModeActive {
		return false
	}
	if goid() != tasks[cur].goid {
		st.Foreign++
		return false
	}
	return true
}

// AcquireW is called before the real Lock.
//
//go:norace
func AcquireW(l *LockState) {
	if !simTask() {
		return
	}
	site := tasks[cur].last
	point(site, true)
	if l.writer != 0 || l.readers != 0 {
		l.pendingW++
		for l.writer != 0 || l.readers != 0 {
			tasks[cur].waitOn = l
			tasks[cur].waitW = true
			blockCur()
		}
		l.pendingW--
	}
	l.writer = int32(cur) + 1
	t := &tasks[cur]
	t.held++
	t.waitOn = nil
	syncEvent(l, evLock)
	// splat-window probes: which function is taking the lock?
	if site == siteSet {
		has := false
		for i := 0; i < t.nwin; i++ {
			if t.win[i] == l {
				has = true
			}
		}
		if !has {
			for o := 0; o < ntasks; o++ {
				if o == cur {
					continue
				}
				for i := 0; i < tasks[o].nwin; i++ {
					if tasks[o].win[i] == l {
						st.OverlapSame++
					}
				}
			}
			if t.nwin < len(t.win) {
				t.win[t.nwin] = l
				t.nwin++
			}
		}
	} else if site == siteClear {
		for i := 0; i < t.nwin; i++ {
			if t.win[i] == l {
				t.win[i] = t.win[t.nwin-1]
				t.nwin--
				break
			}
		}
	}
	// A task can be preempted inside its critical section too: this is the
	// point at which other tasks get to find the lock held.
	point(site, true)
}

// TryAcquireW is the TryLock variant; it reports whether the lock was granted.
//
//go:norace
func TryAcquireW(l *LockState) bool {
	if !simTask() {
		return true
	}
	point(tasks[cur].last, true)
	if l.writer != 0 || l.readers != 0 {
		return false
	}
	l.writer = int32(cur) + 1
	tasks[cur].held++
	syncEvent(l, evLock)
	return true
}

// ReleaseW is called after the real Unlock.
//
//go:norace
func ReleaseW(l *LockState) {
	if !simTask() {
		return
	}
	if l.writer == 0 {
		die(ExitDiscipline, "lock_discipline", "unlock of a lock that is not write-locked")
	}
	// Go allows unlocking from another goroutine; account the release to the holder.
	h := int(l.writer) - 1
	l.writer = 0
	if h >= 0 && h < ntasks {
		tasks[h].held--
	}
	syncEvent(l, evUnlock)
	// Readers that were blocked while the writer was active are admitted
	// before any other writer (as in sync.RWMutex.Unlock).
	for i := 0; i < ntasks; i++ {
		t := &tasks[i]
		if t.state == stBlocked && t.waitOn == l {
			if !t.waitW {
				l.readers++
				t.granted = true
			}
			t.state = stRunnable
		}
	}
	point(tasks[cur].last, true)
}

// AcquireR is called before the real RLock.
//
//go:norace
func AcquireR(l *LockState) {
	if !simTask() {
		return
	}
	point(tasks[cur].last, true)
	t := &tasks[cur]
	got := false
	for l.writer != 0 || l.pendingW > 0 {
		if l.writer == 0 {
			st.ReaderPendingW++
		}
		t.waitOn = l
		t.waitW = false
		t.granted = false
		blockCur()
		if t.granted {
			t.granted = false
			got = true
			break
		}
	}
	if !got {
		l.readers++
	}
	t.held++
	t.waitOn = nil
	syncEvent(l, evRLock)
	point(t.last, true)
}

//go:norace
func TryAcquireR(l *LockState) bool {
	if !simTask() {
		return true
	}
	point(tasks[cur].last, true)
	if l.writer != 0 || l.pendingW > 0 {
		return false
	}
	l.readers++
	tasks[cur].held++
	syncEvent(l, evRLock)
	return true
}

// ReleaseR is called after the real RUnlock.
//
//go:norace
func ReleaseR(l *LockState) {
	if !simTask() {
		return
	}
	if l.readers <= 0 {
		die(ExitDiscipline, "lock_discipline", "runlock of a lock that is not read-locked")
	}
	l.readers--
	tasks[cur].held--
	syncEvent(l, evRUnlock)
	if l.readers == 0 {
		for i := 0; i < ntasks; i++ {
			t := &tasks[i]
			if t.state == stBlocked && t.waitOn == l && t.waitW {
				t.state = stRunnable
			}
		}
	}
	point(tasks[cur].last, true)
}

// OnceState is the scheduler's view of a sync.Once.
type OnceState struct {
	done    bool
	running int32 // task id + 1
}

// OnceEnter reports whether the caller should run the real Once.Do with the
// initialiser (true) or may call it knowing it returns at once (false).
//
//go:norace
func OnceEnter(o *OnceState) bool {
	if !simTask() {
		return true
	}
	point(tasks[cur].last, true)
	if o.done {
		return false
	}
	if o.running != 0 {
		if int(o.running)-1 == cur {
			die(ExitDeadlock, "deadlock", "sync.Once.Do called recursively from its own initialiser")
		}
		for !o.done {
			tasks[cur].waitOnc = o
			blockCur()
		}
		tasks[cur].waitOnc = nil
		return false
	}
	o.running = int32(cur) + 1
	tasks[cur].held++
	return true
}

// OnceDone is deferred by the runner.
//
//go:norace
func OnceDone(o *OnceState) {
	if !simTask() {
		return
	}
	if o.running == 0 {
		return // entered while the simulator was off
	}
	o.done = true
	o.running = 0
	tasks[cur].held--
	for i := 0; i < ntasks; i++ {
		t := &tasks[i]
		if t.state == stBlocked && t.waitOnc == o {
			t.state = stRunnable
		}
	}
	point(tasks[cur].last, true)
}

// SyncPoint is a boosted decision point without any blocking semantics: the
// wrappers around the non-blocking primitives (sync.Map, sync.Pool,
// sync/atomic) call it before and after the real operation, so that another
// task can be scheduled between two such operations of one function body
// (check-then-act sequences written with atomics have no function entry
// between the check and the act).
//
//go:norace
func SyncPoint() {
	if !simTask() {
		return
	}
	st.AtomicPoints++
	point(tasks[cur].last, true)
}

// ---- channels inside the library ----
//
// The instrumenter rewrites channel receives and sends in library code into
// calls of Recv / Recv2 / Send.  Under the simulator a channel operation that
// is not ready must not block the goroutine that holds the baton (nobody else
// could run and make it ready): the task polls, and between polls lets other
// tasks run.  If every other unfinished task is blocked on a lock or has been
// polling since the last progress anybody made, the run is a deadlock.

// chanWait is called when a poll found the channel not ready.
//
//go:norace
func chanWait() {
	if !simTask() {
		runtime.Gosched()
		return
	}
	steps++
	if steps > cfg.Budget {
		die(ExitBudget, "budget", "step budget exceeded (a task keeps waiting on a channel)")
	}
	st.ChanWaits++
	me := cur
	t := &tasks[me]
	t.spinning = true
	t.spinAt = progress
	var cand [MaxTasks]int
	n := 0
	for i := 0; i < ntasks; i++ {
		if i != me && tasks[i].state == stRunnable && !(tasks[i].spinning && tasks[i].spinAt == progress) {
			cand[n] = i
			n++
		}
	}
	if n == 0 {
		// Goroutines the library started itself are outside the scheduler's
		// control; give them real time before calling it a deadlock.
		t.idleSpins++
		if st.Foreign == 0 || t.idleSpins > 20000 {
			die(ExitDeadlock, "deadlock", "a task waits on a channel and no other task can make progress")
		}
		runtime.Gosched()
		return
	}
	nxt := cand[0]
	if cfg.Strategy == StratReplay {
		if e := replayEntry(true); e != nil && e.To >= 0 && e.To < ntasks && e.To != me && tasks[e.To].state == stRunnable {
			nxt = e.To
		}
	} else if n > 1 {
		nxt = cand[next()%uint64(n)]
	}
	handTo(nxt, true)
}

//go:norace
func chanDone() {
	if !simTask() {
		return
	}
	t := &tasks[cur]
	if t.spinning {
		t.spinning = false
		t.idleSpins = 0
		progress++
	}
}

//go:norace
func simActive() bool { return mode == ModeActive }

// Recv replaces `<-ch`.
func Recv[T any](ch <-chan T) T {
	if !simActive() {
		return <-ch
	}
	SyncPoint()
	for {
		select {
		case v := <-ch:
			chanDone()
			SyncPoint()
			return v
		default:
			chanWait()
		}
	}
}

// Recv2 replaces `v, ok := <-ch`.
func Recv2[T any](ch <-chan T) (T, bool) {
	if !simActive() {
		v, ok := <-ch
		return v, ok
	}
	SyncPoint()
	for {
		select {
		case v, ok := <-ch:
			chanDone()
			SyncPoint()
			return v, ok
		default:
			chanWait()
		}
	}
}

// Send replaces `ch <- v`.
func Send[T any](ch chan<- T, v T) {
	if !simActive() {
		ch <- v
		return
	}
	SyncPoint()
	for {
		select {
		case ch <- v:
			chanDone()
			SyncPoint()
			return
		default:
			chanWait()
		}
	}
}
