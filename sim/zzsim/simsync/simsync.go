// Package simsync is a drop-in replacement for package sync inside the
// instrumented copy of the library: blocking primitives consult the simulator
// first (so a task that would block is parked by the scheduler instead of by
// the Go runtime) and then perform the operation on a real sync primitive,
// which keeps the race detector's view of synchronisation exact.
package simsync

import (
	"sync"

	"github.com/hashicorp/hcl/v2/zzsim"
)

type (
	Locker    = sync.Locker
	Map       = sync.Map
	Pool      = sync.Pool
	WaitGroup = sync.WaitGroup
	Cond      = sync.Cond
)

func NewCond(l Locker) *Cond { return sync.NewCond(l) }

type Mutex struct {
	st zzsim.LockState
	mu sync.Mutex
}

func (m *Mutex) Lock()   { zzsim.AcquireW(&m.st); m.mu.Lock() }
func (m *Mutex) Unlock() { m.mu.Unlock(); zzsim.ReleaseW(&m.st) }
func (m *Mutex) TryLock() bool {
	if !zzsim.TryAcquireW(&m.st) {
		return false
	}
	if !m.mu.TryLock() {
		// only possible when the simulator is off or a foreign goroutine holds it
		zzsim.ReleaseW(&m.st)
		return false
	}
	return true
}

type RWMutex struct {
	st zzsim.LockState
	mu sync.RWMutex
}

func (m *RWMutex) Lock()    { zzsim.AcquireW(&m.st); m.mu.Lock() }
func (m *RWMutex) Unlock()  { m.mu.Unlock(); zzsim.ReleaseW(&m.st) }
func (m *RWMutex) RLock()   { zzsim.AcquireR(&m.st); m.mu.RLock() }
func (m *RWMutex) RUnlock() { m.mu.RUnlock(); zzsim.ReleaseR(&m.st) }
func (m *RWMutex) TryLock() bool {
	if !zzsim.TryAcquireW(&m.st) {
		return false
	}
	if !m.mu.TryLock() {
		zzsim.ReleaseW(&m.st)
		return false
	}
	return true
}
func (m *RWMutex) TryRLock() bool {
	if !zzsim.TryAcquireR(&m.st) {
		return false
	}
	if !m.mu.TryRLock() {
		zzsim.ReleaseR(&m.st)
		return false
	}
	return true
}
func (m *RWMutex) RLocker() Locker { return (*rlocker)(m) }

type rlocker RWMutex

func (r *rlocker) Lock()   { (*RWMutex)(r).RLock() }
func (r *rlocker) Unlock() { (*RWMutex)(r).RUnlock() }

type Once struct {
	st zzsim.OnceState
	o  sync.Once
}

func (o *Once) Do(f func()) {
	if zzsim.OnceEnter(&o.st) {
		defer zzsim.OnceDone(&o.st)
		o.o.Do(f)
		return
	}
	o.o.Do(f)
}

func OnceFunc(f func()) func() {
	var once Once
	var valid bool
	var p any
	g := func() {
		defer func() {
			p = recover()
			if !valid {
				panic(p)
			}
		}()
		f()
		f = nil
		valid = true
	}
	return func() {
		once.Do(g)
		if !valid {
			panic(p)
		}
	}
}

func OnceValue[T any](f func() T) func() T {
	var once Once
	var valid bool
	var p any
	var result T
	g := func() {
		defer func() {
			p = recover()
			if !valid {
				panic(p)
			}
		}()
		result = f()
		f = nil
		valid = true
	}
	return func() T {
		once.Do(g)
		if !valid {
			panic(p)
		}
		return result
	}
}

func OnceValues[T1, T2 any](f func() (T1, T2)) func() (T1, T2) {
	var once Once
	var valid bool
	var p any
	var r1 T1
	var r2 T2
	g := func() {
		defer func() {
			p = recover()
			if !valid {
				panic(p)
			}
		}()
		r1, r2 = f()
		f = nil
		valid = true
	}
	return func() (T1, T2) {
		once.Do(g)
		if !valid {
			panic(p)
		}
		return r1, r2
	}
}
