// Package simsync is a drop-in replacement for package sync inside the
// instrumented copy of the library: blocking primitives consult the simulator
// first (so a task that would block is parked by the scheduler instead of by
// the Go runtime) and then perform the operation on a real sync primitive,
// which keeps the race detector's view of synchronisation exact.
package simsync

import (
	"sync"

	"github.com/hashicorp/hcl/v2/zzsim"
)

type (
	Locker    = sync.Locker
	WaitGroup = sync.WaitGroup
	Cond      = sync.Cond
)

func NewCond(l Locker) *Cond { return sync.NewCond(l) }

type Mutex struct {
	st zzsim.LockState
	mu sync.Mutex
}

func (m *Mutex) Lock()   { zzsim.AcquireW(&m.st); m.mu.Lock() }
func (m *Mutex) Unlock() { m.mu.Unlock(); zzsim.ReleaseW(&m.st) }
func (m *Mutex) TryLock() bool {
	if !zzsim.TryAcquireW(&m.st) {
		return false
	}
	if !m.mu.TryLock() {
		// only possible when the simulator is off or a foreign goroutine holds it
		zzsim.ReleaseW(&m.st)
		return false
	}
	return true
}

type RWMutex struct {
	st zzsim.LockState
	mu sync.RWMutex
}

func (m *RWMutex) Lock()    { zzsim.AcquireW(&m.st); m.mu.Lock() }
func (m *RWMutex) Unlock()  { m.mu.Unlock(); zzsim.ReleaseW(&m.st) }
func (m *RWMutex) RLock()   { zzsim.AcquireR(&m.st); m.mu.RLock() }
func (m *RWMutex) RUnlock() { m.mu.RUnlock(); zzsim.ReleaseR(&m.st) }
func (m *RWMutex) TryLock() bool {
	if !zzsim.TryAcquireW(&m.st) {
		return false
	}
	if !m.mu.TryLock() {
		zzsim.ReleaseW(&m.st)
		return false
	}
	return true
}
func (m *RWMutex) TryRLock() bool {
	if !zzsim.TryAcquireR(&m.st) {
		return false
	}
	if !m.mu.TryRLock() {
		zzsim.ReleaseR(&m.st)
		return false
	}
	return true
}
func (m *RWMutex) RLocker() Locker { return (*rlocker)(m) }

type rlocker RWMutex

func (r *rlocker) Lock()   { (*RWMutex)(r).RLock() }
func (r *rlocker) Unlock() { (*RWMutex)(r).RUnlock() }

type Once struct {
	st zzsim.OnceState
	o  sync.Once
}

func (o *Once) Do(f func()) {
	if zzsim.OnceEnter(&o.st) {
		defer zzsim.OnceDone(&o.st)
		o.o.Do(f)
		return
	}
	o.o.Do(f)
}

func OnceFunc(f func()) func() {
	var once Once
	var valid bool
	var p any
	g := func() {
		defer func() {
			p = recover()
			if !valid {
				panic(p)
			}
		}()
		f()
		f = nil
		valid = true
	}
	return func() {
		once.Do(g)
		if !valid {
			panic(p)
		}
	}
}

func OnceValue[T any](f func() T) func() T {
	var once Once
	var valid bool
	var p any
	var result T
	g := func() {
		defer func() {
			p = recover()
			if !valid {
				panic(p)
			}
		}()
		result = f()
		f = nil
		valid = true
	}
	return func() T {
		once.Do(g)
		if !valid {
			panic(p)
		}
		return result
	}
}

func OnceValues[T1, T2 any](f func() (T1, T2)) func() (T1, T2) {
	var once Once
	var valid bool
	var p any
	var r1 T1
	var r2 T2
	g := func() {
		defer func() {
			p = recover()
			if !valid {
				panic(p)
			}
		}()
		r1, r2 = f()
		f = nil
		valid = true
	}
	return func() (T1, T2) {
		once.Do(g)
		if !valid {
			panic(p)
		}
		return r1, r2
	}
}

// Map wraps sync.Map: every operation is a decision point (before and after),
// performed on the real map.
type Map struct{ m sync.Map }

func (m *Map) Load(key any) (value any, ok bool) {
	zzsim.SyncPoint()
	value, ok = m.m.Load(key)
	zzsim.SyncPoint()
	return
}
func (m *Map) Store(key, value any) { zzsim.SyncPoint(); m.m.Store(key, value); zzsim.SyncPoint() }
func (m *Map) Clear()               { zzsim.SyncPoint(); m.m.Clear(); zzsim.SyncPoint() }
func (m *Map) LoadOrStore(key, value any) (actual any, loaded bool) {
	zzsim.SyncPoint()
	actual, loaded = m.m.LoadOrStore(key, value)
	zzsim.SyncPoint()
	return
}
func (m *Map) LoadAndDelete(key any) (value any, loaded bool) {
	zzsim.SyncPoint()
	value, loaded = m.m.LoadAndDelete(key)
	zzsim.SyncPoint()
	return
}
func (m *Map) Delete(key any) { zzsim.SyncPoint(); m.m.Delete(key); zzsim.SyncPoint() }
func (m *Map) Swap(key, value any) (previous any, loaded bool) {
	zzsim.SyncPoint()
	previous, loaded = m.m.Swap(key, value)
	zzsim.SyncPoint()
	return
}
func (m *Map) CompareAndSwap(key, old, new any) (swapped bool) {
	zzsim.SyncPoint()
	swapped = m.m.CompareAndSwap(key, old, new)
	zzsim.SyncPoint()
	return
}
func (m *Map) CompareAndDelete(key, old any) (deleted bool) {
	zzsim.SyncPoint()
	deleted = m.m.CompareAndDelete(key, old)
	zzsim.SyncPoint()
	return
}

// Range visits the entries in the real map's order (sync.Map makes no promise
// about it; a library whose answers depend on it is nondeterministic by
// itself).  Decision points before the walk and after every callback.
func (m *Map) Range(f func(key, value any) bool) {
	zzsim.SyncPoint()
	m.m.Range(func(k, v any) bool {
		r := f(k, v)
		zzsim.SyncPoint()
		return r
	})
	zzsim.SyncPoint()
}

// Pool wraps sync.Pool; New keeps its meaning.
type Pool struct {
	New func() any
	p   sync.Pool
}

func (p *Pool) Get() any {
	zzsim.SyncPoint()
	v := p.p.Get()
	zzsim.SyncPoint()
	if v == nil && p.New != nil {
		v = p.New()
	}
	return v
}

func (p *Pool) Put(x any) { zzsim.SyncPoint(); p.p.Put(x); zzsim.SyncPoint() }
