// Empty assembly file: allows body-less declarations (setMapSalt, goid) whose
// bodies are pushed from the patched runtime with go:linkname.
