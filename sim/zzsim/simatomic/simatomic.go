// Package simatomic is a drop-in replacement for package sync/atomic inside
// the instrumented copy of the library.  Every operation is performed on the
// real primitive (the race detector sees the genuine acquire/release edges)
// and is bracketed by scheduler decision points, so that a task can be
// preempted between two atomic operations of one function body.
package simatomic

import (
	"sync/atomic"
	"unsafe"

	"github.com/hashicorp/hcl/v2/zzsim"
)

func pre()  { zzsim.SyncPoint() }
func post() { zzsim.SyncPoint() }

// ---- functions ----

func AddInt32(addr *int32, delta int32) (new int32) {
	pre()
	new = atomic.AddInt32(addr, delta)
	post()
	return
}
func AddInt64(addr *int64, delta int64) (new int64) {
	pre()
	new = atomic.AddInt64(addr, delta)
	post()
	return
}
func AddUint32(addr *uint32, delta uint32) (new uint32) {
	pre()
	new = atomic.AddUint32(addr, delta)
	post()
	return
}
func AddUint64(addr *uint64, delta uint64) (new uint64) {
	pre()
	new = atomic.AddUint64(addr, delta)
	post()
	return
}
func AddUintptr(addr *uintptr, delta uintptr) (new uintptr) {
	pre()
	new = atomic.AddUintptr(addr, delta)
	post()
	return
}

func AndInt32(addr *int32, mask int32) (old int32) {
	pre()
	old = atomic.AndInt32(addr, mask)
	post()
	return
}
func AndInt64(addr *int64, mask int64) (old int64) {
	pre()
	old = atomic.AndInt64(addr, mask)
	post()
	return
}
func AndUint32(addr *uint32, mask uint32) (old uint32) {
	pre()
	old = atomic.AndUint32(addr, mask)
	post()
	return
}
func AndUint64(addr *uint64, mask uint64) (old uint64) {
	pre()
	old = atomic.AndUint64(addr, mask)
	post()
	return
}
func AndUintptr(addr *uintptr, mask uintptr) (old uintptr) {
	pre()
	old = atomic.AndUintptr(addr, mask)
	post()
	return
}
func OrInt32(addr *int32, mask int32) (old int32) {
	pre()
	old = atomic.OrInt32(addr, mask)
	post()
	return
}
func OrInt64(addr *int64, mask int64) (old int64) {
	pre()
	old = atomic.OrInt64(addr, mask)
	post()
	return
}
func OrUint32(addr *uint32, mask uint32) (old uint32) {
	pre()
	old = atomic.OrUint32(addr, mask)
	post()
	return
}
func OrUint64(addr *uint64, mask uint64) (old uint64) {
	pre()
	old = atomic.OrUint64(addr, mask)
	post()
	return
}
func OrUintptr(addr *uintptr, mask uintptr) (old uintptr) {
	pre()
	old = atomic.OrUintptr(addr, mask)
	post()
	return
}

func CompareAndSwapInt32(addr *int32, old, new int32) (swapped bool) {
	pre()
	swapped = atomic.CompareAndSwapInt32(addr, old, new)
	post()
	return
}
func CompareAndSwapInt64(addr *int64, old, new int64) (swapped bool) {
	pre()
	swapped = atomic.CompareAndSwapInt64(addr, old, new)
	post()
	return
}
func CompareAndSwapUint32(addr *uint32, old, new uint32) (swapped bool) {
	pre()
	swapped = atomic.CompareAndSwapUint32(addr, old, new)
	post()
	return
}
func CompareAndSwapUint64(addr *uint64, old, new uint64) (swapped bool) {
	pre()
	swapped = atomic.CompareAndSwapUint64(addr, old, new)
	post()
	return
}
func CompareAndSwapUintptr(addr *uintptr, old, new uintptr) (swapped bool) {
	pre()
	swapped = atomic.CompareAndSwapUintptr(addr, old, new)
	post()
	return
}
func CompareAndSwapPointer(addr *unsafe.Pointer, old, new unsafe.Pointer) (swapped bool) {
	pre()
	swapped = atomic.CompareAndSwapPointer(addr, old, new)
	post()
	return
}

func LoadInt32(addr *int32) (val int32)       { pre(); val = atomic.LoadInt32(addr); post(); return }
func LoadInt64(addr *int64) (val int64)       { pre(); val = atomic.LoadInt64(addr); post(); return }
func LoadUint32(addr *uint32) (val uint32)    { pre(); val = atomic.LoadUint32(addr); post(); return }
func LoadUint64(addr *uint64) (val uint64)    { pre(); val = atomic.LoadUint64(addr); post(); return }
func LoadUintptr(addr *uintptr) (val uintptr) { pre(); val = atomic.LoadUintptr(addr); post(); return }
func LoadPointer(addr *unsafe.Pointer) (val unsafe.Pointer) {
	pre()
	val = atomic.LoadPointer(addr)
	post()
	return
}

func StoreInt32(addr *int32, val int32)       { pre(); atomic.StoreInt32(addr, val); post() }
func StoreInt64(addr *int64, val int64)       { pre(); atomic.StoreInt64(addr, val); post() }
func StoreUint32(addr *uint32, val uint32)    { pre(); atomic.StoreUint32(addr, val); post() }
func StoreUint64(addr *uint64, val uint64)    { pre(); atomic.StoreUint64(addr, val); post() }
func StoreUintptr(addr *uintptr, val uintptr) { pre(); atomic.StoreUintptr(addr, val); post() }
func StorePointer(addr *unsafe.Pointer, val unsafe.Pointer) {
	pre()
	atomic.StorePointer(addr, val)
	post()
}

func SwapInt32(addr *int32, new int32) (old int32) {
	pre()
	old = atomic.SwapInt32(addr, new)
	post()
	return
}
func SwapInt64(addr *int64, new int64) (old int64) {
	pre()
	old = atomic.SwapInt64(addr, new)
	post()
	return
}
func SwapUint32(addr *uint32, new uint32) (old uint32) {
	pre()
	old = atomic.SwapUint32(addr, new)
	post()
	return
}
func SwapUint64(addr *uint64, new uint64) (old uint64) {
	pre()
	old = atomic.SwapUint64(addr, new)
	post()
	return
}
func SwapUintptr(addr *uintptr, new uintptr) (old uintptr) {
	pre()
	old = atomic.SwapUintptr(addr, new)
	post()
	return
}
func SwapPointer(addr *unsafe.Pointer, new unsafe.Pointer) (old unsafe.Pointer) {
	pre()
	old = atomic.SwapPointer(addr, new)
	post()
	return
}

// ---- types ----

type Bool struct{ v atomic.Bool }

func (x *Bool) Load() (r bool)           { pre(); r = x.v.Load(); post(); return }
func (x *Bool) Store(val bool)           { pre(); x.v.Store(val); post() }
func (x *Bool) Swap(new bool) (old bool) { pre(); old = x.v.Swap(new); post(); return }
func (x *Bool) CompareAndSwap(old, new bool) (s bool) {
	pre()
	s = x.v.CompareAndSwap(old, new)
	post()
	return
}

type Int32 struct{ v atomic.Int32 }

func (x *Int32) Load() (r int32)            { pre(); r = x.v.Load(); post(); return }
func (x *Int32) Store(val int32)            { pre(); x.v.Store(val); post() }
func (x *Int32) Swap(new int32) (old int32) { pre(); old = x.v.Swap(new); post(); return }
func (x *Int32) CompareAndSwap(old, new int32) (s bool) {
	pre()
	s = x.v.CompareAndSwap(old, new)
	post()
	return
}
func (x *Int32) Add(d int32) (r int32) { pre(); r = x.v.Add(d); post(); return }
func (x *Int32) And(m int32) (r int32) { pre(); r = x.v.And(m); post(); return }
func (x *Int32) Or(m int32) (r int32)  { pre(); r = x.v.Or(m); post(); return }

type Int64 struct{ v atomic.Int64 }

func (x *Int64) Load() (r int64)            { pre(); r = x.v.Load(); post(); return }
func (x *Int64) Store(val int64)            { pre(); x.v.Store(val); post() }
func (x *Int64) Swap(new int64) (old int64) { pre(); old = x.v.Swap(new); post(); return }
func (x *Int64) CompareAndSwap(old, new int64) (s bool) {
	pre()
	s = x.v.CompareAndSwap(old, new)
	post()
	return
}
func (x *Int64) Add(d int64) (r int64) { pre(); r = x.v.Add(d); post(); return }
func (x *Int64) And(m int64) (r int64) { pre(); r = x.v.And(m); post(); return }
func (x *Int64) Or(m int64) (r int64)  { pre(); r = x.v.Or(m); post(); return }

type Uint32 struct{ v atomic.Uint32 }

func (x *Uint32) Load() (r uint32)             { pre(); r = x.v.Load(); post(); return }
func (x *Uint32) Store(val uint32)             { pre(); x.v.Store(val); post() }
func (x *Uint32) Swap(new uint32) (old uint32) { pre(); old = x.v.Swap(new); post(); return }
func (x *Uint32) CompareAndSwap(old, new uint32) (s bool) {
	pre()
	s = x.v.CompareAndSwap(old, new)
	post()
	return
}
func (x *Uint32) Add(d uint32) (r uint32) { pre(); r = x.v.Add(d); post(); return }
func (x *Uint32) And(m uint32) (r uint32) { pre(); r = x.v.And(m); post(); return }
func (x *Uint32) Or(m uint32) (r uint32)  { pre(); r = x.v.Or(m); post(); return }

type Uint64 struct{ v atomic.Uint64 }

func (x *Uint64) Load() (r uint64)             { pre(); r = x.v.Load(); post(); return }
func (x *Uint64) Store(val uint64)             { pre(); x.v.Store(val); post() }
func (x *Uint64) Swap(new uint64) (old uint64) { pre(); old = x.v.Swap(new); post(); return }
func (x *Uint64) CompareAndSwap(old, new uint64) (s bool) {
	pre()
	s = x.v.CompareAndSwap(old, new)
	post()
	return
}
func (x *Uint64) Add(d uint64) (r uint64) { pre(); r = x.v.Add(d); post(); return }
func (x *Uint64) And(m uint64) (r uint64) { pre(); r = x.v.And(m); post(); return }
func (x *Uint64) Or(m uint64) (r uint64)  { pre(); r = x.v.Or(m); post(); return }

type Uintptr struct{ v atomic.Uintptr }

func (x *Uintptr) Load() (r uintptr)              { pre(); r = x.v.Load(); post(); return }
func (x *Uintptr) Store(val uintptr)              { pre(); x.v.Store(val); post() }
func (x *Uintptr) Swap(new uintptr) (old uintptr) { pre(); old = x.v.Swap(new); post(); return }
func (x *Uintptr) CompareAndSwap(old, new uintptr) (s bool) {
	pre()
	s = x.v.CompareAndSwap(old, new)
	post()
	return
}
func (x *Uintptr) Add(d uintptr) (r uintptr) { pre(); r = x.v.Add(d); post(); return }
func (x *Uintptr) And(m uintptr) (r uintptr) { pre(); r = x.v.And(m); post(); return }
func (x *Uintptr) Or(m uintptr) (r uintptr)  { pre(); r = x.v.Or(m); post(); return }

type Pointer[T any] struct{ v atomic.Pointer[T] }

func (x *Pointer[T]) Load() (r *T)         { pre(); r = x.v.Load(); post(); return }
func (x *Pointer[T]) Store(val *T)         { pre(); x.v.Store(val); post() }
func (x *Pointer[T]) Swap(new *T) (old *T) { pre(); old = x.v.Swap(new); post(); return }
func (x *Pointer[T]) CompareAndSwap(old, new *T) (s bool) {
	pre()
	s = x.v.CompareAndSwap(old, new)
	post()
	return
}

type Value struct{ v atomic.Value }

func (x *Value) Load() (r any)          { pre(); r = x.v.Load(); post(); return }
func (x *Value) Store(val any)          { pre(); x.v.Store(val); post() }
func (x *Value) Swap(new any) (old any) { pre(); old = x.v.Swap(new); post(); return }
func (x *Value) CompareAndSwap(old, new any) (s bool) {
	pre()
	s = x.v.CompareAndSwap(old, new)
	post()
	return
}
