#!/usr/bin/env python3
# Regenerates the table of seeded changes in DESIGN.md (between the two markers) from seeded/*/meta.json and detection.json.
import json,glob,re
rows=[]
for d in sorted(glob.glob('/verif/seeded/*')):
    try:
        m=json.load(open(d+'/meta.json')); det=json.load(open(d+'/detection.json'))
    except Exception as e:
        continue
    cls=det.get('first_violation_class','').split(' — ')[0]
    rows.append('| %s | %s | %s | %s | %s | %ds |'%(d.split('/')[-1], m['property'], m['needs_to_manifest'].replace('|','/'), 'yes' if det.get('detected') else 'NO', cls, det['seconds']))
tbl='| seeded id | property | needs, in order to manifest | reported | first class reported | check wall time |\n|---|---|---|---|---|---|\n'+'\n'.join(rows)
s=open('/verif/DESIGN.md').read()
b,e='<!-- seeded-table-begin -->','<!-- seeded-table-end -->'
assert b in s and e in s
s=s[:s.index(b)+len(b)]+'\n'+tbl+'\n'+s[s.index(e):]
open('/verif/DESIGN.md','w').write(s)
print(len(rows),'rows')
