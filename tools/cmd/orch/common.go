package main

import (
	"bytes"
	"encoding/json"
	"fmt"
	"os"
	"os/exec"
	"path/filepath"
	"sort"
	"strconv"
	"strings"
	"time"
)

const (
	goBin   = "go1.26.8"
	hclMod  = "github.com/hashicorp/hcl/v2"
)

// repoDir is the tree under test: /repo, unless VERIF_REPO points at a scratch
// worktree (used only for trying deliberate property-breaking changes in
// parallel; registered commands never set it).
var repoDir = func() string {
	if d := os.Getenv("VERIF_REPO"); d != "" {
		return d
	}
	return "/repo"
}()

// verifDir is the root of the verification machinery (bin/check exports it, so
// that a snapshot of /verif uses its own sources and writes its own evidence).
var verifDir = func() string {
	if d := os.Getenv("VERIF_DIR"); d != "" {
		return d
	}
	return "/verif"
}()

type env struct {
	prop    string
	tier    string
	seed    uint64
	scratch string
	start   time.Time
	replay  string
	seconds int
	keep    bool
}

func goEnv() []string {
	e := os.Environ()
	e = append(e, "GOFLAGS=-mod=mod", "GOPROXY=off", "GOSUMDB=off", "GOTOOLCHAIN=local", "GONOSUMDB=*", "GONOSUMCHECK=1")
	return e
}

// trouble reports harness trouble (never a violation) and exits 2.
func trouble(e *env, format string, args ...any) {
	fmt.Printf("HARNESS-TROUBLE property=%s: %s\n", e.prop, fmt.Sprintf(format, args...))
	cleanup(e)
	os.Exit(2)
}

func cleanup(e *env) {
	if e.scratch != "" && !e.keep {
		os.RemoveAll(e.scratch)
	}
}

func run(dir string, envv []string, name string, args ...string) (string, error) {
	cmd := exec.Command(name, args...)
	cmd.Dir = dir
	cmd.Env = envv
	var buf bytes.Buffer
	cmd.Stdout = &buf
	cmd.Stderr = &buf
	err := cmd.Run()
	return buf.String(), err
}

func copyTree(src, dst string) error {
	return filepath.Walk(src, func(p string, info os.FileInfo, err error) error {
		if err != nil {
			return err
		}
		rel, _ := filepath.Rel(src, p)
		if info.IsDir() {
			if info.Name() == ".git" {
				return filepath.SkipDir
			}
			return os.MkdirAll(filepath.Join(dst, rel), 0o755)
		}
		if !info.Mode().IsRegular() {
			return nil
		}
		b, err := os.ReadFile(p)
		if err != nil {
			return err
		}
		return os.WriteFile(filepath.Join(dst, rel), b, 0o644)
	})
}

func mkScratch(e *env) {
	base := "/var/tmp"
	d, err := os.MkdirTemp(base, "verif-"+strings.ToLower(e.prop)+"-")
	if err != nil {
		fmt.Println("HARNESS-TROUBLE cannot create scratch dir:", err)
		os.Exit(2)
	}
	e.scratch = d
}

// buildTools builds instrument and mkoverlay from /verif/tools into the
// scratch directory (cached by the Go build cache).
func buildTools(e *env) {
	out, err := run(filepath.Join(verifDir, "tools"), goEnv(), goBin, "build", "-trimpath", "-o", filepath.Join(e.scratch, "bin")+"/", "./cmd/instrument", "./cmd/mkoverlay")
	if err != nil {
		trouble(e, "building tools failed: %v\n%s", err, out)
	}
}

func treeHash() string {
	out, err := run(repoDir, os.Environ(), "git", "rev-parse", "HEAD")
	if err != nil {
		return "unknown"
	}
	h := strings.TrimSpace(out)
	st, _ := run(repoDir, os.Environ(), "git", "status", "--porcelain")
	if strings.TrimSpace(st) != "" {
		h += "+dirty"
	}
	return h
}

// shortTree is the first seven characters of the tree id (plus "+" if dirty);
// replay file names carry it so that a later finding under the same run seed
// does not overwrite an earlier one.
func shortTree() string {
	t := treeHash()
	s := t
	if len(s) > 7 {
		s = s[:7]
	}
	if strings.HasSuffix(t, "+dirty") {
		s += "+"
	}
	return s
}

// ---- known findings ----

type finding struct {
	Kind         string // known | fixed
	Property     string
	ID           string
	Class        string
	Intervention string
	Text         string
	Raw          string
}

func loadFindings(prop string) []finding {
	b, err := os.ReadFile(filepath.Join(verifDir, "KNOWN_FINDINGS.txt"))
	if err != nil {
		return nil
	}
	var fs []finding
	for _, ln := range strings.Split(string(b), "\n") {
		ln = strings.TrimSpace(ln)
		if ln == "" || strings.HasPrefix(ln, "#") {
			continue
		}
		var f finding
		f.Raw = ln
		switch {
		case strings.HasPrefix(ln, "known:"):
			f.Kind = "known"
			ln = strings.TrimSpace(strings.TrimPrefix(ln, "known:"))
		case strings.HasPrefix(ln, "fixed:"):
			f.Kind = "fixed"
			ln = strings.TrimSpace(strings.TrimPrefix(ln, "fixed:"))
		default:
			continue
		}
		rest := []string{}
		for _, tok := range strings.Fields(ln) {
			switch {
			case strings.HasPrefix(tok, "property=") && f.Property == "":
				f.Property = strings.TrimPrefix(tok, "property=")
			case strings.HasPrefix(tok, "id=") && f.ID == "":
				f.ID = strings.TrimPrefix(tok, "id=")
			case strings.HasPrefix(tok, "class=") && f.Class == "":
				f.Class = strings.TrimPrefix(tok, "class=")
			case strings.HasPrefix(tok, "intervention=") && f.Intervention == "":
				f.Intervention = strings.TrimPrefix(tok, "intervention=")
			default:
				rest = append(rest, tok)
			}
		}
		f.Text = strings.Join(rest, " ")
		if f.Property == prop {
			fs = append(fs, f)
		}
	}
	return fs
}

// ---- evidence ----

type evidence struct {
	PropertyID  string         `json:"property_id"`
	Tier        string         `json:"tier"`
	Seed        uint64         `json:"seed"`
	Level       string         `json:"level"`
	Coverage    map[string]any `json:"coverage"`
	Assumptions []string       `json:"assumptions"`
	WallS       float64        `json:"wall_s"`
	Violations  int            `json:"violations"`
}

func writeEvidence(e *env, ev *evidence) {
	ev.PropertyID = e.prop
	ev.Tier = e.tier
	ev.Seed = e.seed
	ev.WallS = time.Since(e.start).Seconds()
	b, _ := json.MarshalIndent(ev, "", " ")
	os.MkdirAll(filepath.Join(verifDir, "evidence"), 0o755)
	p := filepath.Join(verifDir, "evidence", e.prop+".json")
	if err := os.WriteFile(p, append(b, '\n'), 0o644); err != nil {
		fmt.Println("HARNESS-TROUBLE cannot write evidence:", err)
	}
}

func sortedKeys[V any](m map[string]V) []string {
	ks := make([]string, 0, len(m))
	for k := range m {
		ks = append(ks, k)
	}
	sort.Strings(ks)
	return ks
}

func parseUint(s string, def uint64) uint64 {
	if s == "" {
		return def
	}
	v, err := strconv.ParseUint(s, 10, 64)
	if err != nil {
		// accept negative / huge by hashing the text
		h := uint64(0xcbf29ce484222325)
		for i := 0; i < len(s); i++ {
			h = (h ^ uint64(s[i])) * 0x100000001b3
		}
		return h
	}
	return v
}

func main() {
	if len(os.Args) < 2 {
		fmt.Println("usage: orch <C12|C17> [--tier quick|thorough] [--replay FILE] [--seconds N] [--keep]")
		os.Exit(2)
	}
	e := &env{prop: os.Args[1], tier: os.Getenv("VERIF_TIER"), start: time.Now()}
	e.seed = parseUint(os.Getenv("VERIF_SEED"), 20260923)
	for i := 2; i < len(os.Args); i++ {
		switch os.Args[i] {
		case "--tier":
			i++
			e.tier = os.Args[i]
		case "--replay":
			i++
			e.replay = os.Args[i]
		case "--seconds":
			i++
			e.seconds, _ = strconv.Atoi(os.Args[i])
		case "--keep":
			e.keep = true
		}
	}
	if e.tier != "thorough" {
		e.tier = "quick"
	}
	switch e.prop {
	case "C17":
		mainC17(e)
	case "C12":
		mainC12(e)
	case "warm":
		e.prop = "C17"
		x := &c17{e: e}
		x.build()
		cleanup(e)
		e.prop = "C12"
		warmC12(e)
		fmt.Println("warm: build caches are ready")
	default:
		fmt.Println("unknown property", e.prop)
		os.Exit(2)
	}
}
