package main

import (
	"bufio"
	"bytes"
	"encoding/json"
	"fmt"
	"os"
	"os/exec"
	"path/filepath"
	"sort"
	"strings"
	"sync"
	"sync/atomic"
	"time"
)

// ---- mirror of the harness's case types (only what the orchestrator edits) ----

type sw struct {
	From   int    `json:"from"`
	Op     int32  `json:"op"`
	Local  uint64 `json:"local"`
	To     int    `json:"to"`
	Forced bool   `json:"forced,omitempty"`
}

type attrM struct {
	Name  string   `json:"name"`
	Expr  string   `json:"expr"`
	JList []string `json:"jlist,omitempty"`
	JKeys []string `json:"jkeys,omitempty"`
	JVals []string `json:"jvals,omitempty"`
}
type dynM struct {
	ForEach  string   `json:"for_each"`
	Iterator string   `json:"iterator,omitempty"`
	Labels   []string `json:"labels,omitempty"`
}
type blockM struct {
	Type   string   `json:"type"`
	Labels []string `json:"labels,omitempty"`
	Body   bodyM    `json:"body"`
	Dyn    *dynM    `json:"dyn,omitempty"`
}
type bodyM struct {
	Attrs  []attrM  `json:"attrs,omitempty"`
	Blocks []blockM `json:"blocks,omitempty"`
}
type fileM struct {
	Syntax    string `json:"syntax"`
	Body      bodyM  `json:"body"`
	JSONArray int    `json:"json_array,omitempty"`
}
type opM struct {
	Kind   string `json:"kind"`
	Target int    `json:"target"`
	Expr   int    `json:"expr,omitempty"`
	NilCtx bool   `json:"nil_ctx,omitempty"`
	Mask   uint64 `json:"mask,omitempty"`
	Check  bool   `json:"check,omitempty"`
}
type taskM struct {
	CtxMode string          `json:"ctx_mode"`
	Vars    json.RawMessage `json:"vars"`
	Ops     []opM           `json:"ops"`
}
type faultM struct {
	Seed    uint64 `json:"seed"`
	Error   int    `json:"cb_error"`
	Panic   int    `json:"cb_panic"`
	Slow    int    `json:"cb_slow"`
	Reenter int    `json:"cb_reenter"`
	Abort   int    `json:"cb_abort"`
	Goexit  int    `json:"cb_goexit"`
}
type schedM struct {
	Strategy  string `json:"strategy"`
	SwitchInv uint64 `json:"switch_inv,omitempty"`
	BoostInv  uint64 `json:"boost_inv,omitempty"`
	PCTDepth  int    `json:"pct_depth,omitempty"`
	Quantum   uint64 `json:"quantum,omitempty"`
	Victim    int    `json:"victim,omitempty"`
	StarveFr  uint64 `json:"starve_frac_256,omitempty"`
	Seed      uint64 `json:"seed"`
	Replay    []sw   `json:"replay,omitempty"`
}
type caseM struct {
	Property    string          `json:"property"`
	Seed        uint64          `json:"seed"`
	Note        string          `json:"note,omitempty"`
	Prelude     string          `json:"prelude"`
	Files       []fileM         `json:"files"`
	SpecSeed    uint64          `json:"spec_seed"`
	Shared      json.RawMessage `json:"shared_vars"`
	Tasks       []taskM         `json:"tasks"`
	Faults      faultM          `json:"faults"`
	Sched       schedM          `json:"sched"`
	MapSalt     uint64          `json:"map_salt"`
	ExpandCheck bool            `json:"expand_check"`
	Pretouch    bool            `json:"pretouch"`
	ConcFirst   bool            `json:"conc_first,omitempty"`
	PoolsRetain bool            `json:"pools_retain,omitempty"`
	// replay-file extras (ignored by the worker)
	Expect   *expectM `json:"expect,omitempty"`
	History  *histM   `json:"process_history,omitempty"`
	Tree     string   `json:"tree,omitempty"`
	Toolchain string  `json:"toolchain,omitempty"`
}
// histM: a failure that needs the worker process's earlier runs to reproduce
// (the race detector's report depends on what the process did before).
type histM struct {
	Base uint64 `json:"base"`
	From uint64 `json:"from"`
	To   uint64 `json:"to"`
	Deep bool   `json:"deep,omitempty"`
	Note string `json:"note"`
}

type expectM struct {
	Verdict   string `json:"verdict"`
	Detail    string `json:"detail,omitempty"`
	TraceHash uint64 `json:"trace_hash,omitempty"`
	SyncHash  uint64 `json:"sync_hash,omitempty"`
	Task      int    `json:"task"`
	Op        int    `json:"op"`
	Expected  string `json:"expected,omitempty"`
	Actual    string `json:"actual,omitempty"`
	Report    string `json:"report,omitempty"`
}

func (c *caseM) clone() *caseM {
	b, _ := json.Marshal(c)
	n := &caseM{}
	json.Unmarshal(b, n)
	return n
}

type statsM struct {
	Steps          uint64
	Switches       uint64
	Preemptions    uint64
	Decisions      uint64
	TraceHash      uint64
	SyncHash       uint64
	SyncEvents     uint64
	AtomicPoints   uint64
	ChanWaits      uint64
	Blocked        uint64
	ReaderPendingW uint64
	OverlapSame    uint64
	PreemptInWin   uint64
	Foreign        uint64
	Infeasible     uint64
	Schedule       []sw
	PreemptShapes  []uint64
	Verdict        string
}

type resultM struct {
	Seed      uint64            `json:"seed"`
	Verdict   string            `json:"verdict"`
	Detail    string            `json:"detail"`
	Task      int               `json:"task"`
	Op        int               `json:"op"`
	Expected  string            `json:"expected"`
	Actual    string            `json:"actual"`
	DiffAt    int               `json:"diff_at"`
	SoloSteps uint64            `json:"solo_steps"`
	Stats     statsM            `json:"stats"`
	Probes    map[string]uint64 `json:"probes"`
	Fired     map[string]uint64 `json:"fired"`
	OutHash   uint64            `json:"out_hash"`
	NTasks    int               `json:"ntasks"`
	NOps      int               `json:"nops"`
	Strategy  string            `json:"strategy"`
	FaultFree bool              `json:"fault_free"`
	OpKinds   map[string]uint64 `json:"op_kinds"`
	ErrOps    int               `json:"err_ops"`
}

type lineM struct {
	PB      int      `json:"pb"`
	Ev      string   `json:"ev"`
	I       uint64   `json:"i"`
	Seed    uint64   `json:"seed"`
	Profile string   `json:"profile"`
	Res     *resultM `json:"res"`
	Case    *caseM   `json:"case"`
	Verdict string   `json:"verdict"`
	Detail  string   `json:"detail"`
	Stats   *statsM  `json:"stats"`
}

// failure is one non-ok run as the orchestrator sees it.
type failure struct {
	ProcFrom uint64 // first run index of the worker process in which it failed
	Deep     bool
	I       uint64
	Seed    uint64
	Profile string
	Verdict string // mismatch race deadlock budget lock_discipline fatal
	Detail  string
	Case    *caseM
	Res     *resultM
	Sched   []sw
	Report  string // race report / stderr tail
}

type c17 struct {
	e        *env
	worker   string
	raceDir  string
	instr    map[string]any
	buildS   float64
}

func (x *c17) build() {
	e := x.e
	t0 := time.Now()
	mkScratch(e)
	buildTools(e)
	hcl := filepath.Join(e.scratch, "hcl")
	if err := copyTree(repoDir, hcl); err != nil {
		trouble(e, "copying /repo: %v", err)
	}
	if err := copyTree(filepath.Join(verifDir, "sim", "zzsim"), filepath.Join(hcl, "zzsim")); err != nil {
		trouble(e, "copying zzsim: %v", err)
	}
	out, err := run(e.scratch, os.Environ(), filepath.Join(e.scratch, "bin", "instrument"), hcl)
	if err != nil {
		trouble(e, "instrumenting the copy of /repo failed (does the tree parse?): %v\n%s", err, out)
	}
	json.Unmarshal([]byte(out), &x.instr)
	groot, err := run(e.scratch, goEnv(), goBin, "env", "GOROOT")
	if err != nil {
		trouble(e, "go env GOROOT: %v %s", err, groot)
	}
	ov := filepath.Join(e.scratch, "ov")
	out, err = run(e.scratch, os.Environ(), filepath.Join(e.scratch, "bin", "mkoverlay"), strings.TrimSpace(groot), ov, hclMod+"/zzsim")
	if err != nil {
		trouble(e, "runtime overlay generation failed: %v\n%s", err, out)
	}
	h := filepath.Join(e.scratch, "h17")
	if err := copyTree(filepath.Join(verifDir, "harness", "c17"), h); err != nil {
		trouble(e, "copying harness: %v", err)
	}
	gomod := "module c17harness\n\ngo 1.24.0\n\nrequire " + hclMod + " v2.0.0\n\nreplace " + hclMod + " => ../hcl\n"
	os.WriteFile(filepath.Join(h, "go.mod"), []byte(gomod), 0o644)
	sum, _ := os.ReadFile(filepath.Join(repoDir, "go.sum"))
	os.WriteFile(filepath.Join(h, "go.sum"), sum, 0o644)
	x.worker = filepath.Join(e.scratch, "c17worker")
	out, err = run(h, goEnv(), goBin, "build", "-race", "-trimpath", "-overlay", filepath.Join(ov, "overlay.json"), "-o", x.worker, ".")
	if err != nil {
		trouble(e, "building the simulation binary failed (a tree that does not compile is not a violation): %v\n%s", err, out)
	}
	x.raceDir = filepath.Join(e.scratch, "race")
	os.MkdirAll(x.raceDir, 0o755)
	x.buildS = time.Since(t0).Seconds()
	x.mirrorSelfTest()
}

// mirrorSelfTest checks that the orchestrator's copy of the case types loses
// nothing: a generated case must survive decode + encode unchanged.  (A field
// added to the harness but not here would silently vanish from every replayed
// and minimised case.)
func (x *c17) mirrorSelfTest() {
	for _, args := range [][]string{{"-gen", "12345", "-profile", "fault"}, {"-gen", "777", "-profile", "fault", "-deep"}} {
		out, err := run(x.e.scratch, append(os.Environ(), "GOMAXPROCS=1"), x.worker, args...)
		if err != nil {
			trouble(x.e, "worker -gen failed: %v %s", err, out)
		}
		var c caseM
		if err := json.Unmarshal([]byte(out), &c); err != nil {
			trouble(x.e, "worker -gen output does not parse: %v", err)
		}
		re, _ := json.Marshal(&c)
		var a, b any
		da := json.NewDecoder(strings.NewReader(out))
		da.UseNumber()
		da.Decode(&a)
		db := json.NewDecoder(bytes.NewReader(re))
		db.UseNumber()
		db.Decode(&b)
		if !jsonEqual(a, b) {
			trouble(x.e, "the orchestrator's case types are out of date: a generated case changes when decoded and re-encoded")
		}
	}
}

// jsonEqual compares decoded JSON, treating absent, null, false, 0, "" and
// empty collections as equal (omitempty).
func jsonEqual(a, b any) bool {
	empty := func(v any) bool {
		switch t := v.(type) {
		case nil:
			return true
		case bool:
			return !t
		case string:
			return t == ""
		case json.Number:
			return t.String() == "0"
		case []any:
			return len(t) == 0
		case map[string]any:
			for _, x := range t {
				if !jsonEqual(x, nil) {
					return false
				}
			}
			return true
		}
		return false
	}
	if empty(a) && empty(b) {
		return true
	}
	switch ta := a.(type) {
	case map[string]any:
		tb, ok := b.(map[string]any)
		if !ok {
			return false
		}
		for k, v := range ta {
			if !jsonEqual(v, tb[k]) {
				return false
			}
		}
		for k, v := range tb {
			if _, ok := ta[k]; !ok && !jsonEqual(nil, v) {
				return false
			}
		}
		return true
	case []any:
		tb, ok := b.([]any)
		if !ok || len(ta) != len(tb) {
			return false
		}
		for i := range ta {
			if !jsonEqual(ta[i], tb[i]) {
				return false
			}
		}
		return true
	case json.Number:
		tb, ok := b.(json.Number)
		return ok && ta.String() == tb.String()
	}
	return a == b
}

type procOut struct {
	lines  []lineM
	exit   int
	stderr string
	race   string
	timed  bool
}

// spawn runs one worker process to completion.
func (x *c17) spawn(gomaxprocs int, timeout time.Duration, args ...string) procOut {
	cmd := exec.Command(x.worker, args...)
	rl := filepath.Join(x.raceDir, "r")
	cmd.Env = append(os.Environ(), fmt.Sprintf("GOMAXPROCS=%d", gomaxprocs),
		"GORACE=log_path="+rl+" halt_on_error=0 history_size=4 atexit_sleep_ms=0", "VERIF_RACE_LOG="+rl, "GOTRACEBACK=single")
	// The watchdog is about progress, not duration: a worker is killed when it
	// has written nothing for `timeout` (every run writes a line when it starts
	// and when it ends), however long the whole batch takes on a busy machine.
	var so progressBuf
	var se bytes.Buffer
	so.touch()
	cmd.Stdout = &so
	cmd.Stderr = &se
	var po procOut
	if err := cmd.Start(); err != nil {
		po.exit = -1
		po.stderr = err.Error()
		return po
	}
	done := make(chan error, 1)
	go func() { done <- cmd.Wait() }()
	tick := time.NewTicker(2 * time.Second)
	defer tick.Stop()
wait:
	for {
		select {
		case err := <-done:
			if err != nil {
				if ee, ok := err.(*exec.ExitError); ok {
					po.exit = ee.ExitCode()
				} else {
					po.exit = -1
				}
			}
			break wait
		case <-tick.C:
			if so.idle() > timeout {
				cmd.Process.Kill()
				<-done
				po.timed = true
				po.exit = -2
				break wait
			}
		}
	}
	sc := bufio.NewScanner(bytes.NewReader(so.bytes()))
	sc.Buffer(make([]byte, 1<<20), 1<<28)
	for sc.Scan() {
		var l lineM
		if json.Unmarshal(sc.Bytes(), &l) == nil && l.Ev != "" {
			po.lines = append(po.lines, l)
		}
	}
	po.stderr = se.String()
	rp := fmt.Sprintf("%s.%d", rl, cmd.Process.Pid)
	if b, err := os.ReadFile(rp); err == nil {
		po.race = string(b)
		os.Remove(rp)
	}
	return po
}

// progressBuf collects a worker's stdout and remembers when it last grew.
type progressBuf struct {
	mu   sync.Mutex
	buf  bytes.Buffer
	last time.Time
}

func (p *progressBuf) Write(b []byte) (int, error) {
	p.mu.Lock()
	defer p.mu.Unlock()
	p.last = time.Now()
	return p.buf.Write(b)
}
func (p *progressBuf) touch() { p.mu.Lock(); p.last = time.Now(); p.mu.Unlock() }
func (p *progressBuf) idle() time.Duration {
	p.mu.Lock()
	defer p.mu.Unlock()
	return time.Since(p.last)
}
func (p *progressBuf) bytes() []byte {
	p.mu.Lock()
	defer p.mu.Unlock()
	return append([]byte(nil), p.buf.Bytes()...)
}

func tail(s string, n int) string {
	if len(s) <= n {
		return s
	}
	return "..." + s[len(s)-n:]
}

func head(s string, n int) string {
	if len(s) <= n {
		return s
	}
	return s[:n] + "..."
}

// failureOf extracts the failure (if any) a worker process ended with.
func failureOf(po procOut) (*failure, string) {
	var inflight *lineM
	for i := range po.lines {
		l := &po.lines[i]
		switch l.Ev {
		case "start":
			inflight = l
		case "end":
			inflight = nil
			if l.Res != nil && l.Res.Verdict != "ok" {
				f := &failure{I: l.I, Seed: l.Seed, Profile: l.Profile, Verdict: l.Res.Verdict, Detail: l.Res.Detail, Case: l.Case, Res: l.Res, Sched: l.Res.Stats.Schedule}
				if f.Verdict == "race" {
					f.Report = head(po.race, 6000)
				}
				if f.Verdict == "internal" {
					return nil, "worker reported an internal inconsistency: " + l.Res.Detail
				}
				return f, ""
			}
		case "die":
			f := &failure{Verdict: l.Verdict, Detail: l.Detail, Case: l.Case}
			if inflight != nil {
				f.I, f.Seed, f.Profile = inflight.I, inflight.Seed, inflight.Profile
			}
			if l.Stats != nil {
				f.Sched = l.Stats.Schedule
			}
			if l.Verdict == "internal" {
				return nil, "scheduler internal error: " + l.Detail
			}
			return f, ""
		}
	}
	if po.timed {
		return nil, "worker exceeded its wall-clock watchdog"
	}
	if po.exit != 0 && po.exit != 66 {
		se := po.stderr
		if inflight != nil && (strings.Contains(se, "fatal error: concurrent map") || strings.Contains(se, "fatal error: sync:") || strings.Contains(se, "fatal error: all goroutines are asleep")) {
			return &failure{I: inflight.I, Seed: inflight.Seed, Profile: inflight.Profile, Verdict: "fatal", Detail: "Go runtime fatal error during the simulated phase", Report: head(se, 6000)}, ""
		}
		return nil, fmt.Sprintf("worker exited with status %d: %s", po.exit, tail(se, 3000))
	}
	return nil, ""
}

type agg struct {
	mu        sync.Mutex
	runs      uint64
	ops       uint64
	errOps    uint64
	steps     uint64
	soloSteps uint64
	switches  uint64
	preempt   uint64
	syncEv    uint64
	blocked   uint64
	byStrat   map[string]uint64
	byProfile map[string]uint64
	fired     map[string]uint64
	probes    map[string]uint64
	opKinds   map[string]uint64
	inter     map[uint64]struct{}
	interWin  map[uint64]struct{}
	shapes    map[uint64]struct{}
	faultRuns uint64
	samples   []any
	failures  []*failure
	troubleS  string
}

func newAgg() *agg {
	return &agg{byStrat: map[string]uint64{}, byProfile: map[string]uint64{}, fired: map[string]uint64{}, probes: map[string]uint64{},
		opKinds: map[string]uint64{}, inter: map[uint64]struct{}{}, interWin: map[uint64]struct{}{}, shapes: map[uint64]struct{}{}}
}

func (a *agg) add(l *lineM) {
	r := l.Res
	a.mu.Lock()
	defer a.mu.Unlock()
	a.runs++
	a.ops += uint64(r.NOps)
	a.errOps += uint64(r.ErrOps)
	a.steps += r.Stats.Steps
	a.soloSteps += r.SoloSteps
	a.switches += r.Stats.Switches
	a.preempt += r.Stats.Preemptions
	a.syncEv += r.Stats.SyncEvents
	a.blocked += r.Stats.Blocked
	a.byStrat[r.Strategy]++
	a.byProfile[l.Profile]++
	if !r.FaultFree {
		a.faultRuns++
	}
	for k, v := range r.Fired {
		a.fired[k] += v
	}
	for k, v := range r.Probes {
		a.probes[k] += v
	}
	a.probes["overlap_same_symbol"] += r.Stats.OverlapSame
	a.probes["preempt_inside_splat_window"] += r.Stats.PreemptInWin
	a.probes["task_blocked_on_lock"] += r.Stats.Blocked
	a.probes["atomic_map_pool_decision_points"] += r.Stats.AtomicPoints
	a.probes["channel_waits_inside_library"] += r.Stats.ChanWaits
	a.probes["reader_blocked_by_pending_writer"] += r.Stats.ReaderPendingW
	for k, v := range r.OpKinds {
		a.opKinds[k] += v
	}
	if r.Stats.SyncEvents > 0 {
		a.inter[r.Stats.SyncHash] = struct{}{}
		if r.Stats.PreemptInWin > 0 {
			a.interWin[r.Stats.SyncHash] = struct{}{}
		}
	}
	for _, s := range r.Stats.PreemptShapes {
		a.shapes[s] = struct{}{}
	}
}

// sweep fans run indices out over worker processes until the deadline.
func (x *c17) sweep(a *agg, deadline time.Time, workers int, chunk uint64, maxRuns uint64) {
	var next uint64
	var stop int32
	var wg sync.WaitGroup
	for w := 0; w < workers; w++ {
		wg.Add(1)
		go func() {
			defer wg.Done()
			for atomic.LoadInt32(&stop) == 0 && time.Now().Before(deadline) {
				from := atomic.AddUint64(&next, chunk) - chunk
				if maxRuns > 0 && from >= maxRuns {
					return
				}
				to := from + chunk
				for from < to {
					args := []string{"-base", fmt.Sprint(x.e.seed), "-from", fmt.Sprint(from), "-to", fmt.Sprint(to), "-profile", "mixed"}
					deep := x.e.tier == "thorough" && (to/chunk)%2 == 0
					if deep {
						args = append(args, "-deep")
					}
					po := x.spawn(1, 240*time.Second, args...)
					last := from
					for i := range po.lines {
						l := &po.lines[i]
						if l.Ev == "end" && l.Res != nil {
							last = l.I + 1
							if l.Res.Verdict == "ok" {
								a.add(l)
							}
						} else if l.Ev == "start" {
							last = l.I + 1
						}
					}
					f, tr := failureOf(po)
					if tr != "" {
						a.mu.Lock()
						a.troubleS = tr
						a.mu.Unlock()
						atomic.StoreInt32(&stop, 1)
						return
					}
					if f != nil {
						f.ProcFrom = from
						f.Deep = deep
						a.mu.Lock()
						a.failures = append(a.failures, f)
						nf := len(a.failures)
						a.mu.Unlock()
						if nf >= 24 {
							atomic.StoreInt32(&stop, 1)
							return
						}
						from = last // continue after the failing run
						continue
					}
					break
				}
			}
		}()
	}
	wg.Wait()
}

// pb1 runs the bounded systematic search: small two-task cases, each under
// every schedule with exactly one preemption (capped per case).
func (x *c17) pb1(a *agg, nCases int, cap int) (cases, schedules int) {
	return x.pb(a, "pb1", uint64(1)<<42, nCases, cap)
}

// pb2: the same small cases under schedules with two preemptions, both placed
// at boosted decision points (lock, atomic, pool and callback boundaries).
func (x *c17) pb2(a *agg, nCases int, cap int) (cases, schedules int) {
	return x.pb(a, "pb2", uint64(1)<<42, nCases, cap)
}

func (x *c17) pb(a *agg, kind string, base uint64, nCases int, cap int) (cases, schedules int) {
	var mu sync.Mutex
	var wg sync.WaitGroup
	sem := make(chan struct{}, 16)
	for i := 0; i < nCases; i++ {
		wg.Add(1)
		sem <- struct{}{}
		go func(i int) {
			defer wg.Done()
			defer func() { <-sem }()
			idx := base + uint64(i)
			po := x.spawn(1, 600*time.Second, "-base", fmt.Sprint(x.e.seed), "-from", fmt.Sprint(idx), "-to", fmt.Sprint(idx+1), "-profile", "mixed", "-"+kind, fmt.Sprint(cap))
			mu.Lock()
			defer mu.Unlock()
			for k := range po.lines {
				l := &po.lines[k]
				if l.Ev == kind || (l.Ev == "end" && l.PB > 0) {
					cases++
					schedules += l.PB
				}
			}
			f, tr := failureOf(po)
			if tr != "" {
				a.troubleS = tr
				return
			}
			if f != nil {
				f.ProcFrom = idx
				a.failures = append(a.failures, f)
			}
		}(i)
	}
	wg.Wait()
	return
}

// runCaseFile executes one explicit case in a fresh process.
func (x *c17) runCase(c *caseM, gomaxprocs int) (procOut, *failure, *resultM, string) {
	f, err := os.CreateTemp(x.e.scratch, "case-*.json")
	if err != nil {
		return procOut{}, nil, nil, err.Error()
	}
	b, _ := json.Marshal(c)
	f.Write(b)
	f.Close()
	defer os.Remove(f.Name())
	po := x.spawn(gomaxprocs, 120*time.Second, "-replay", f.Name(), "-full")
	fl, tr := failureOf(po)
	var res *resultM
	for i := range po.lines {
		if po.lines[i].Ev == "end" {
			res = po.lines[i].Res
		}
	}
	if fl != nil && fl.Case == nil {
		fl.Case = c
	}
	return po, fl, res, tr
}

// ---- determinism self-test ----

type detKey struct{ trace, sync, out, steps, switches uint64 }

func (x *c17) determinism(nSeeds uint64) (pairs int, diverged []string, tr string) {
	type row map[uint64]detKey
	// Runs in which pools retain items are compared between two single-P
	// processes only: sync.Pool keeps per-P caches, so with several Ps which
	// Get hits a cached item is the runtime's business.  The multi-P
	// configurations are compared in the mode in which pools retain nothing.
	cfgs := []int{1, 1, 1, 4, 16}
	noRetain := []bool{false, false, true, true, true}
	rows := make([]row, len(cfgs))
	var wg sync.WaitGroup
	var mu sync.Mutex
	// a separate index range (high) so the sweep does not repeat it
	base := uint64(1) << 40
	for ci, gmp := range cfgs {
		rows[ci] = row{}
		for part := uint64(0); part < 4; part++ {
			wg.Add(1)
			go func(ci, gmp int, part uint64) {
				defer wg.Done()
				from := base + part*nSeeds/4
				to := base + (part+1)*nSeeds/4
				for from < to {
					dargs := []string{"-base", fmt.Sprint(x.e.seed), "-from", fmt.Sprint(from), "-to", fmt.Sprint(to), "-profile", "mixed"}
					if noRetain[ci] {
						dargs = append(dargs, "-noretain")
					}
					po := x.spawn(gmp, 240*time.Second, dargs...)
					last := from
					mu.Lock()
					for i := range po.lines {
						l := &po.lines[i]
						if l.Ev == "start" {
							last = l.I + 1
						}
						if l.Ev == "end" && l.Res != nil {
							s := l.Res.Stats
							rows[ci][l.I] = detKey{s.TraceHash, s.SyncHash, l.Res.OutHash, s.Steps, s.Switches}
						}
					}
					mu.Unlock()
					f, t := failureOf(po)
					if t != "" {
						mu.Lock()
						tr = t
						mu.Unlock()
						return
					}
					if f == nil {
						break
					}
					from = last
				}
			}(ci, gmp, part)
		}
	}
	wg.Wait()
	if tr != "" {
		return
	}
	for i := base; i < base+nSeeds; i++ {
		for _, pr := range [][2]int{{0, 1}, {2, 3}, {2, 4}} {
			k0, ok0 := rows[pr[0]][i]
			k, ok := rows[pr[1]][i]
			if !ok0 || !ok {
				continue // that run failed; failures are handled by the sweep
			}
			pairs++
			if k != k0 {
				diverged = append(diverged, fmt.Sprintf("run %d: GOMAXPROCS=%d gave %+v, GOMAXPROCS=%d gave %+v", i, cfgs[pr[0]], k0, cfgs[pr[1]], k))
			}
		}
	}
	return
}

// replayDeterminism re-executes recorded schedules in fresh processes.
func (x *c17) replayDeterminism(n uint64) (checked int, diverged []string, tr string) {
	base := uint64(1)<<41
	var mu sync.Mutex
	var wg sync.WaitGroup
	for i := uint64(0); i < n; i++ {
		wg.Add(1)
		go func(i uint64) {
			defer wg.Done()
			po := x.spawn(1, 120*time.Second, "-base", fmt.Sprint(x.e.seed), "-from", fmt.Sprint(base+i), "-to", fmt.Sprint(base+i+1), "-profile", "mixed", "-full", "-emitcase")
			var c *caseM
			var r1 *resultM
			for k := range po.lines {
				if po.lines[k].Ev == "end" {
					c, r1 = po.lines[k].Case, po.lines[k].Res
				}
			}
			if c == nil || r1 == nil || r1.Verdict != "ok" {
				return
			}
			c2 := c.clone()
			c2.Sched.Strategy = "replay"
			c2.Sched.Replay = r1.Stats.Schedule
			_, f, r2, t := x.runCase(c2, 1)
			mu.Lock()
			defer mu.Unlock()
			if t != "" {
				tr = t
				return
			}
			if f != nil || r2 == nil {
				diverged = append(diverged, fmt.Sprintf("run %d: replay of the recorded schedule failed where the original run passed", base+i))
				return
			}
			checked++
			if r2.Stats.TraceHash != r1.Stats.TraceHash || r2.Stats.SyncHash != r1.Stats.SyncHash || r2.OutHash != r1.OutHash || r2.Stats.Infeasible != 0 {
				diverged = append(diverged, fmt.Sprintf("run %d: replay trace %d/%d sync %d/%d out %d/%d infeasible %d", base+i,
					r1.Stats.TraceHash, r2.Stats.TraceHash, r1.Stats.SyncHash, r2.Stats.SyncHash, r1.OutHash, r2.OutHash, r2.Stats.Infeasible))
			}
		}(i)
	}
	wg.Wait()
	return
}

// ---- minimisation ----

func sameClass(want string, f *failure) bool {
	return f != nil && f.Verdict == want
}

// tryCase runs a candidate; it reports whether it fails with the wanted class,
// and if so returns the failure (with the schedule actually taken).
func (x *c17) tryCase(c *caseM, want string) (*failure, bool) {
	_, f, _, tr := x.runCase(c, 1)
	if tr != "" {
		return nil, false
	}
	if sameClass(want, f) {
		return f, true
	}
	return nil, false
}

func dropTask(c *caseM, t int) *caseM {
	n := c.clone()
	n.Tasks = append(n.Tasks[:t:t], n.Tasks[t+1:]...)
	var rs []sw
	for _, s := range n.Sched.Replay {
		if s.From == t || s.To == t {
			continue
		}
		if s.From > t {
			s.From--
		}
		if s.To > t {
			s.To--
		}
		rs = append(rs, s)
	}
	n.Sched.Replay = rs
	if n.Sched.Victim >= len(n.Tasks) {
		n.Sched.Victim = 0
	}
	return n
}

func dropOp(c *caseM, t, o int) *caseM {
	n := c.clone()
	ops := n.Tasks[t].Ops
	n.Tasks[t].Ops = append(ops[:o:o], ops[o+1:]...)
	var rs []sw
	for _, s := range n.Sched.Replay {
		if s.From == t {
			if int(s.Op) == o {
				continue
			}
			if int(s.Op) > o {
				s.Op--
			}
		}
		rs = append(rs, s)
	}
	n.Sched.Replay = rs
	return n
}

func (x *c17) minimise(f *failure, budget time.Duration) (*caseM, *failure, int) {
	deadline := time.Now().Add(budget)
	want := f.Verdict
	cur := f.Case.clone()
	best := f
	tried := 0
	// 1. explicit schedule
	if len(f.Sched) > 0 && cur.Sched.Strategy != "replay" {
		c2 := cur.clone()
		c2.Sched.Strategy = "replay"
		c2.Sched.Replay = f.Sched
		tried++
		if nf, ok := x.tryCase(c2, want); ok {
			cur, best = c2, nf
		}
	}
	accept := func(c *caseM) bool {
		if time.Now().After(deadline) {
			return false
		}
		tried++
		if nf, ok := x.tryCase(c, want); ok {
			cur, best = c, nf
			return true
		}
		return false
	}
	for pass := 0; pass < 3 && time.Now().Before(deadline); pass++ {
		progress := false
		// 2. tasks
		for t := len(cur.Tasks) - 1; t >= 0 && len(cur.Tasks) > 1; t-- {
			if t < len(cur.Tasks) && accept(dropTask(cur, t)) {
				progress = true
			}
		}
		// 3. ops
		for t := len(cur.Tasks) - 1; t >= 0; t-- {
			for o := len(cur.Tasks[t].Ops) - 1; o >= 0; o-- {
				if len(cur.Tasks[t].Ops) > 1 && accept(dropOp(cur, t, o)) {
					progress = true
				}
			}
		}
		// 4. faults
		for k := 0; k < 7; k++ {
			c2 := cur.clone()
			fl := &c2.Faults
			ch := false
			switch k {
			case 0:
				ch, fl.Error = fl.Error != 0, 0
			case 1:
				ch, fl.Panic = fl.Panic != 0, 0
			case 2:
				ch, fl.Slow = fl.Slow != 0, 0
			case 3:
				ch, fl.Reenter = fl.Reenter != 0, 0
			case 4:
				ch, fl.Abort = fl.Abort != 0, 0
			case 5:
				ch, fl.Goexit = fl.Goexit != 0, 0
			case 6:
				ch, c2.ExpandCheck = c2.ExpandCheck, false
			}
			if ch && accept(c2) {
				progress = true
			}
		}
		// 5. preemptions (non-forced switches), chunked then singly
		if cur.Sched.Strategy == "replay" {
			for size := len(cur.Sched.Replay) / 2; size >= 1; size /= 2 {
				for i := 0; i+size <= len(cur.Sched.Replay); {
					c2 := cur.clone()
					var keep []sw
					removed := 0
					for j, s := range c2.Sched.Replay {
						if j >= i && j < i+size && !s.Forced && s.From >= 0 {
							removed++
							continue
						}
						keep = append(keep, s)
					}
					c2.Sched.Replay = keep
					if removed > 0 && accept(c2) {
						progress = true
						// adopt the schedule actually taken (forced entries may have changed)
						if len(best.Sched) > 0 {
							cur.Sched.Replay = best.Sched
						}
					} else {
						i += size
					}
					if time.Now().After(deadline) {
						break
					}
				}
			}
		}
		// 6. source: files, blocks, attributes
		for fi := len(cur.Files) - 1; fi >= 0 && len(cur.Files) > 1; fi-- {
			c2 := cur.clone()
			c2.Files = append(c2.Files[:fi:fi], c2.Files[fi+1:]...)
			if accept(c2) {
				progress = true
			}
		}
		for fi := range cur.Files {
			for bi := len(cur.Files[fi].Body.Blocks) - 1; bi >= 0; bi-- {
				c2 := cur.clone()
				bl := c2.Files[fi].Body.Blocks
				c2.Files[fi].Body.Blocks = append(bl[:bi:bi], bl[bi+1:]...)
				if accept(c2) {
					progress = true
				}
			}
			for ai := len(cur.Files[fi].Body.Attrs) - 1; ai >= 0; ai-- {
				if len(cur.Files[fi].Body.Attrs) <= 1 {
					break
				}
				c2 := cur.clone()
				at := c2.Files[fi].Body.Attrs
				c2.Files[fi].Body.Attrs = append(at[:ai:ai], at[ai+1:]...)
				if accept(c2) {
					progress = true
				}
			}
		}
		if !progress {
			break
		}
	}
	return cur, best, tried
}

// ---- known-finding attribution (interventional) ----

// intervene returns the case with the finding's named ingredient neutralised,
// or nil if the intervention does not apply to this case.
func intervene(c *caseM, iv string) *caseM {
	switch {
	case strings.HasPrefix(iv, "replace-op:"):
		parts := strings.SplitN(strings.TrimPrefix(iv, "replace-op:"), "->", 2)
		if len(parts) != 2 {
			return nil
		}
		n := c.clone()
		ch := false
		for t := range n.Tasks {
			for o := range n.Tasks[t].Ops {
				if n.Tasks[t].Ops[o].Kind == parts[0] {
					n.Tasks[t].Ops[o].Kind = parts[1]
					ch = true
				}
			}
		}
		if !ch {
			return nil
		}
		// positions inside the replaced ops no longer mean the same thing
		return n
	case iv == "empty-prelude":
		if strings.TrimSpace(c.Prelude) == "" {
			return nil
		}
		n := c.clone()
		n.Prelude = ""
		return n
	}
	return nil
}

func (x *c17) attribute(min *caseM, f *failure, fs []finding) *finding {
	for i := range fs {
		k := &fs[i]
		if k.Kind != "known" || k.Class != f.Verdict {
			continue
		}
		n := intervene(min, k.Intervention)
		if n == nil {
			continue
		}
		_, nf, _, tr := x.runCase(n, 1)
		if tr == "" && nf == nil {
			return k
		}
	}
	return nil
}

// ---- main ----

func describe(f *failure) string {
	var b strings.Builder
	fmt.Fprintf(&b, "  class: %s — %s\n  run index %d, run seed %d, profile %s\n", f.Verdict, f.Detail, f.I, f.Seed, f.Profile)
	if f.Res != nil && f.Verdict == "mismatch" {
		fmt.Fprintf(&b, "  first divergent op: task %d op %d; outcomes differ from byte %d (windows around it):\n  alone:      %s\n  concurrent: %s\n", f.Res.Task, f.Res.Op, f.Res.DiffAt, head(f.Res.Expected, 1500), head(f.Res.Actual, 1500))
	}
	if f.Report != "" {
		fmt.Fprintf(&b, "  report:\n%s\n", indent(head(f.Report, 4000), "    "))
	}
	return b.String()
}

func indent(s, p string) string {
	return p + strings.ReplaceAll(strings.TrimRight(s, "\n"), "\n", "\n"+p)
}

func (x *c17) writeReplay(c *caseM, f *failure, name string) string {
	c = c.clone()
	c.Tree = treeHash()
	c.Toolchain = goBin
	c.Expect = &expectM{Verdict: f.Verdict, Detail: f.Detail, Report: head(f.Report, 6000)}
	if f.Res != nil {
		c.Expect.Task, c.Expect.Op = f.Res.Task, f.Res.Op
		c.Expect.Expected, c.Expect.Actual = head(f.Res.Expected, 4000), head(f.Res.Actual, 4000)
		c.Expect.TraceHash, c.Expect.SyncHash = f.Res.Stats.TraceHash, f.Res.Stats.SyncHash
	}
	dir := filepath.Join(verifDir, "replays")
	os.MkdirAll(dir, 0o755)
	p := filepath.Join(dir, name)
	b, _ := json.MarshalIndent(c, "", " ")
	os.WriteFile(p, append(b, '\n'), 0o644)
	return p
}

func mainC17(e *env) {
	x := &c17{e: e}
	x.build()
	defer cleanup(e)

	if e.replay != "" {
		b, err := os.ReadFile(e.replay)
		if err != nil {
			trouble(e, "cannot read replay file: %v", err)
		}
		c := &caseM{}
		if err := json.Unmarshal(b, c); err != nil {
			trouble(e, "cannot parse replay file: %v", err)
		}
		exp := c.Expect
		c.Expect = nil
		hist := c.History
		c.History = nil
		_, f, res, tr := x.runCase(c, 1)
		if tr != "" {
			trouble(e, "%s", tr)
		}
		if f == nil && hist != nil {
			hargs := []string{"-base", fmt.Sprint(hist.Base), "-from", fmt.Sprint(hist.From), "-to", fmt.Sprint(hist.To), "-profile", "mixed"}
			if hist.Deep {
				hargs = append(hargs, "-deep")
			}
			po := x.spawn(1, 240*time.Second, hargs...)
			hf, htr := failureOf(po)
			if htr != "" {
				trouble(e, "%s", htr)
			}
			if hf != nil && hf.I == hist.To-1 {
				f = hf
			}
		}
		if f == nil {
			fmt.Printf("REPLAY property=C17 file=%s: no violation on this tree (verdict ok)\n", e.replay)
			if exp != nil {
				fmt.Printf("  (the file records verdict %q on tree %s)\n", exp.Verdict, c.Tree)
			}
			cleanup(e)
			os.Exit(0)
		}
		_ = res
		fmt.Printf("REPLAY property=C17 file=%s reproduces:\n%s", e.replay, describe(f))
		if exp != nil && f.Res != nil && exp.TraceHash != 0 {
			fmt.Printf("  event-log hash: recorded %d, now %d (%s)\n", exp.TraceHash, f.Res.Stats.TraceHash, map[bool]string{true: "identical", false: "different tree or toolchain"}[exp.TraceHash == f.Res.Stats.TraceHash])
		}
		fmt.Printf("VIOLATION property=C17 replay=%s\n", e.replay)
		cleanup(e)
		os.Exit(1)
	}

	secs := 45
	detSeeds := uint64(32)
	repSeeds := uint64(8)
	minBudget := 30 * time.Second
	maxMin := 2
	if e.tier == "thorough" {
		maxMin = 4
		secs = 1200
		detSeeds = 512
		repSeeds = 96
		minBudget = 300 * time.Second
	}
	if e.seconds > 0 {
		secs = e.seconds
	}
	fmt.Printf("C17 %s: tree %s, batch seed %d, build %.1fs, instrumentation %v\n", e.tier, treeHash(), e.seed, x.buildS, x.instr)

	// determinism first
	t0 := time.Now()
	pairs, div, tr := x.determinism(detSeeds)
	if tr != "" {
		trouble(e, "determinism self-test: %s", tr)
	}
	rchk, rdiv, tr := x.replayDeterminism(repSeeds)
	if tr != "" {
		trouble(e, "replay self-test: %s", tr)
	}
	detS := time.Since(t0).Seconds()
	if len(div)+len(rdiv) > 0 {
		for _, d := range append(div, rdiv...) {
			fmt.Println("  nondeterminism:", d)
		}
		trouble(e, "the simulation is not deterministic on this tree (%d divergences); results would not replay", len(div)+len(rdiv))
	}
	fmt.Printf("  determinism: %d cross-process pairs (GOMAXPROCS 1/1, 1/4, 1/16) identical, %d recorded schedules replayed identically (%.1fs)\n", pairs, rchk, detS)

	a := newAgg()
	t1 := time.Now()
	x.sweep(a, time.Now().Add(time.Duration(secs)*time.Second), 16, 64, 0)
	sweepS := time.Since(t1).Seconds()
	if a.troubleS != "" {
		trouble(e, "%s", a.troubleS)
	}
	pbCases, pbCap := 16, 600
	if e.tier == "thorough" {
		pbCases, pbCap = 160, 6000
	}
	t2 := time.Now()
	pbC, pbS := x.pb1(a, pbCases, pbCap)
	if a.troubleS != "" {
		trouble(e, "%s", a.troubleS)
	}
	fmt.Printf("  bounded systematic search: %d two-task cases, each under every single-preemption schedule (cap %d): %d schedules in %.1fs\n", pbC, pbCap, pbS, time.Since(t2).Seconds())
	pb2Cases, pb2Cap := 16, 300
	if e.tier == "thorough" {
		pb2Cases, pb2Cap = 96, 1500
	}
	t3 := time.Now()
	pb2C, pb2S := x.pb2(a, pb2Cases, pb2Cap)
	if a.troubleS != "" {
		trouble(e, "%s", a.troubleS)
	}
	fmt.Printf("  bounded systematic search: the same kind of cases under two-preemption schedules placed at lock/atomic/callback decision points (cap %d): %d cases, %d schedules in %.1fs\n", pb2Cap, pb2C, pb2S, time.Since(t3).Seconds())
	fmt.Printf("  sweep: %d runs in %.1fs (%.0f runs/hour), %d ops, %d steps, %d preemptions, %d distinct lock interleavings (%d with a preemption inside a splat window), %d failures\n",
		a.runs, sweepS, float64(a.runs)/sweepS*3600, a.ops, a.steps, a.preempt, len(a.inter), len(a.interWin), len(a.failures))

	// failures: confirm, minimise, attribute
	known := loadFindings("C17")
	sort.Slice(a.failures, func(i, j int) bool { return a.failures[i].I < a.failures[j].I })
	violations := 0
	knownHit := map[string]int{}
	var vioSamples []any
	reported := map[string]bool{}
	handled := map[string]string{} // signature -> "violation" | known id
	minimised := 0
	for _, f := range a.failures {
		if f.Case == nil {
			continue
		}
		sig0 := f.Verdict + "|" + sigOf(f)
		if _, ok := handled[sig0]; ok {
			continue
		}
		if minimised >= maxMin {
			break
		}
		// confirm in a fresh process
		_, cf, _, tr := x.runCase(f.Case, 1)
		if tr != "" {
			trouble(e, "confirming run %d: %s", f.I, tr)
		}
		if cf == nil || cf.Verdict != f.Verdict {
			// Re-execute the worker process it failed in (same first run index):
			// a race report can depend on what the process did before the run.
			hargs := []string{"-base", fmt.Sprint(x.e.seed), "-from", fmt.Sprint(f.ProcFrom), "-to", fmt.Sprint(f.I + 1), "-profile", "mixed"}
			if f.Deep {
				hargs = append(hargs, "-deep")
			}
			po := x.spawn(1, 240*time.Second, hargs...)
			hf, _ := failureOf(po)
			if hf == nil || hf.I != f.I || hf.Verdict != f.Verdict {
				trouble(e, "run %d (seed %d) failed with %s in the sweep but neither alone in a fresh process nor when its worker process (runs %d..%d) is re-executed: nondeterministic", f.I, f.Seed, f.Verdict, f.ProcFrom, f.I)
			}
			hf.ProcFrom = f.ProcFrom
			handled[sig0] = "violation"
			if reported[sig0] {
				continue
			}
			reported[sig0] = true
			violations++
			c := hf.Case.clone()
			c.History = &histM{Base: x.e.seed, From: f.ProcFrom, To: f.I + 1, Deep: f.Deep, Note: "this failure reproduces only after the earlier runs of its worker process; the replay command re-executes that range"}
			p := x.writeReplay(c, hf, fmt.Sprintf("C17-%s-%d-%s.json", hf.Verdict, f.Seed, shortTree()))
			fmt.Printf("violation (not minimised: reproduces only with its worker process's history, runs %d..%d of batch seed %d):\n%s", f.ProcFrom, f.I, x.e.seed, describe(hf))
			fmt.Printf("VIOLATION property=C17 replay=%s\n", p)
			vioSamples = append(vioSamples, map[string]any{"class": hf.Verdict, "seed": f.Seed, "replay": p})
			continue
		}
		if cf.Report == "" {
			cf.Report = f.Report
		}
		cf.I, cf.Seed, cf.Profile = f.I, f.Seed, f.Profile
		minimised++
		min, mf, tried := x.minimise(cf, minBudget)
		mf.I, mf.Seed, mf.Profile = f.I, f.Seed, f.Profile
		if mf.Report == "" {
			mf.Report = cf.Report
		}
		if k := x.attribute(min, mf, known); k != nil {
			knownHit[k.ID]++
			handled[sig0] = k.ID
			fmt.Printf("KNOWN-FINDING: property=C17 id=%s %s\n", k.ID, k.Text)
			continue
		}
		handled[sig0] = "violation"
		sig := mf.Verdict + "|" + sigOf(mf)
		if reported[sig] {
			continue
		}
		reported[sig] = true
		violations++
		p := x.writeReplay(min, mf, fmt.Sprintf("C17-%s-%d-%s.json", mf.Verdict, f.Seed, shortTree()))
		nt, no := len(min.Tasks), 0
		for _, t := range min.Tasks {
			no += len(t.Ops)
		}
		pre := 0
		for _, s := range min.Sched.Replay {
			if !s.Forced {
				pre++
			}
		}
		fmt.Printf("violation (minimised with %d candidate runs to %d tasks, %d ops, %d preemptions):\n%s", tried, nt, no, pre, describe(mf))
		fmt.Printf("VIOLATION property=C17 replay=%s\n", p)
		vioSamples = append(vioSamples, map[string]any{"class": mf.Verdict, "seed": f.Seed, "replay": p})
	}

	// evidence
	hours := sweepS / 3600
	ev := &evidence{Level: "exploration", Violations: violations}
	samples := x.sampleRuns(2)
	ev.Coverage = map[string]any{
		"evaluations":         a.runs,
		"distinct_nontrivial": len(a.interWin),
		"rule": "one evaluation = one simulated run (2-6 task goroutines sharing one parsed configuration, seeded schedule, seeded callback faults, compared op by op with a sequential reference); " +
			"distinct_nontrivial = number of distinct hashes of the run's sequence of (task, lock ordinal, lock operation) events among runs in which the scheduler preempted a task while it held an open splat window (a value set in the shared tree and not yet cleared)",
		"samples":                       samples,
		"runs_per_hour":                 float64(a.runs) / hours,
		"seeds":                         a.runs,
		"simulated_time_steps":          a.steps,
		"sequential_reference_steps":    a.soloSteps,
		"ops_executed":                  a.ops,
		"ops_with_error_diagnostics":    a.errOps,
		"op_kinds":                      a.opKinds,
		"runs_by_strategy":              a.byStrat,
		"runs_by_profile":               a.byProfile,
		"runs_with_faults_enabled":      a.faultRuns,
		"faults_fired":                  a.fired,
		"probes":                        a.probes,
		"switches":                      a.switches,
		"preemptions":                   a.preempt,
		"lock_events":                   a.syncEv,
		"distinct_lock_interleavings":   len(a.inter),
		"distinct_preemption_shapes":    len(a.shapes),
		"pb1_cases":                     pbC,
		"pb1_single_preemption_schedules": pbS,
		"pb2_cases":                     pb2C,
		"pb2_two_preemption_schedules":  pb2S,
		"determinism_pairs_identical":   pairs,
		"determinism_gomaxprocs":        []int{1, 1, 1, 4, 16},
		"replayed_schedules_identical":  rchk,
		"instrumentation":               x.instr,
		"build_seconds":                 x.buildS,
		"known_findings_hit":            knownHit,
		"violations_reported":           vioSamples,
		"tree":                          treeHash(),
		"components_real":               []string{"all of hashicorp/hcl (instrumented copy: a yield call at every function entry, sync swapped for a wrapper around the real primitives)", "go-cty and all other dependencies", "Go runtime", "Go race detector"},
		"components_patched":            []string{"runtime.rand and the hash seeds (go build -overlay): map iteration order is a function of the per-run salt"},
		"components_simulated_or_stub":  []string{"the application: task programs, function table, callbacks", "the scheduler (baton over real goroutines)"},
		"components_absent_in_codebase": []string{"network", "disk", "clock/timers"},
	}
	ev.Assumptions = []string{
		"sampling, not proof: a clean batch is evidence over the runs made",
		"preemption points are hcl function entries, sync operations and callback boundaries; dependencies run atomically between them (they are still race-checked)",
		"the Go race detector and runtime are trusted; the instrumenter only adds calls and renames the sync import",
	}
	writeEvidence(e, ev)
	cleanup(e)
	if violations > 0 {
		os.Exit(1)
	}
	fmt.Printf("C17 %s: property held on everything explored (%d runs)\n", e.tier, a.runs)
	os.Exit(0)
}

func sigOf(f *failure) string {
	if f.Verdict == "race" {
		// first two frames of the report
		lines := strings.Split(f.Report, "\n")
		var fr []string
		for _, l := range lines {
			l = strings.TrimSpace(l)
			if strings.HasPrefix(l, "github.com/hashicorp/hcl") || strings.HasPrefix(l, "github.com/zclconf") {
				fr = append(fr, l)
				if len(fr) == 2 {
					break
				}
			}
		}
		return strings.Join(fr, "|")
	}
	if f.Res != nil && f.Case != nil && f.Res.Task < len(f.Case.Tasks) && f.Res.Op < len(f.Case.Tasks[f.Res.Task].Ops) {
		return f.Case.Tasks[f.Res.Task].Ops[f.Res.Op].Kind
	}
	return f.Detail
}

// sampleRuns writes out a few actual runs (workload and schedule) for evidence.
func (x *c17) sampleRuns(n int) []any {
	var out []any
	for i := 0; i < n; i++ {
		po := x.spawn(1, 60*time.Second, "-base", fmt.Sprint(x.e.seed), "-from", fmt.Sprint(i), "-to", fmt.Sprint(i+1), "-profile", "mixed", "-full", "-emitcase")
		for k := range po.lines {
			l := po.lines[k]
			if l.Ev == "end" && l.Case != nil && l.Res != nil {
				var srcs []string
				for _, f := range l.Case.Files {
					b, _ := json.Marshal(f.Body)
					srcs = append(srcs, f.Syntax+": "+head(string(b), 1200))
				}
				sch := l.Res.Stats.Schedule
				if len(sch) > 24 {
					sch = sch[:24]
				}
				var tasks []any
				for _, t := range l.Case.Tasks {
					tasks = append(tasks, map[string]any{"ctx_mode": t.CtxMode, "ops": t.Ops})
				}
				out = append(out, map[string]any{
					"run_index": l.I, "run_seed": l.Seed, "profile": l.Profile, "files": srcs, "tasks": tasks,
					"faults": l.Case.Faults, "strategy": l.Case.Sched.Strategy, "verdict": l.Res.Verdict,
					"steps": l.Res.Stats.Steps, "switches": l.Res.Stats.Switches, "schedule_prefix": sch,
				})
			}
		}
	}
	return out
}
