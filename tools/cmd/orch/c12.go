package main

import (
	"bufio"
	"bytes"
	"encoding/json"
	"fmt"
	"os"
	"os/exec"
	"path/filepath"
	"sort"
	"strings"
	"sync"
	"sync/atomic"
	"time"
)

// The orchestrator treats a C12 history as generic JSON so that it never has
// to mirror the harness's types: the minimiser only deletes list elements and
// flips a few named fields.

type h12 = map[string]any

type res12 struct {
	Seed      uint64            `json:"seed"`
	Verdict   string            `json:"verdict"`
	Detail    string            `json:"detail"`
	OpIndex   int               `json:"op_index"`
	Source    string            `json:"source"`
	NOps      int               `json:"nops"`
	Effective int               `json:"effective"`
	Shape     uint64            `json:"shape"`
	OpKinds   map[string]uint64 `json:"op_kinds"`
	Fired     map[string]uint64 `json:"fired"`
	Probes    map[string]uint64 `json:"probes"`
	OutHash   uint64            `json:"out_hash"`
	InitKind  string            `json:"init_kind"`
	FaultFree bool              `json:"fault_free"`
}

type line12 struct {
	Ev      string          `json:"ev"`
	I       uint64          `json:"i"`
	Seed    uint64          `json:"seed"`
	Profile string          `json:"profile"`
	Res     *res12          `json:"res"`
	Hist    json.RawMessage `json:"hist"`
}

type fail12 struct {
	I       uint64
	Seed    uint64
	Profile string
	Res     *res12
	Hist    h12
}

type c12 struct {
	e      *env
	worker string
	buildS float64
	enum   bool
}

func boolTo(b bool) uint64 {
	if b {
		return 1
	}
	return 0
}

func (x *c12) enumSize() uint64 {
	out, err := run(x.e.scratch, os.Environ(), x.worker, "-enum-size")
	if err != nil {
		trouble(x.e, "enum-size: %v %s", err, out)
	}
	var pairs, total uint64
	fmt.Sscan(strings.TrimSpace(out), &pairs, &total)
	if x.e.tier == "thorough" {
		return total // pairs on every layout, then triples on the key layouts
	}
	return pairs
}

func (x *c12) build() {
	e := x.e
	t0 := time.Now()
	mkScratch(e)
	h := filepath.Join(e.scratch, "h12")
	if err := copyTree(filepath.Join(verifDir, "harness", "c12"), h); err != nil {
		trouble(e, "copying harness: %v", err)
	}
	gomod := "module c12harness\n\ngo 1.24.0\n\nrequire " + hclMod + " v2.0.0\n\nreplace " + hclMod + " => " + repoDir + "\n"
	os.WriteFile(filepath.Join(h, "go.mod"), []byte(gomod), 0o644)
	sum, _ := os.ReadFile(filepath.Join(repoDir, "go.sum"))
	os.WriteFile(filepath.Join(h, "go.sum"), sum, 0o644)
	x.worker = filepath.Join(e.scratch, "c12worker")
	out, err := run(h, goEnv(), goBin, "build", "-trimpath", "-o", x.worker, ".")
	if err != nil {
		trouble(e, "building the history simulator against /repo failed (a tree that does not compile is not a violation): %v\n%s", err, out)
	}
	x.buildS = time.Since(t0).Seconds()
}

func (x *c12) spawn(timeout time.Duration, gogc string, args ...string) ([]line12, int, string, bool) {
	cmd := exec.Command(x.worker, args...)
	cmd.Env = append(os.Environ(), "GOMAXPROCS=1", "GOGC="+gogc, "GOTRACEBACK=single")
	var so, se bytes.Buffer
	cmd.Stdout = &so
	cmd.Stderr = &se
	if err := cmd.Start(); err != nil {
		return nil, -1, err.Error(), false
	}
	done := make(chan error, 1)
	go func() { done <- cmd.Wait() }()
	exit := 0
	timed := false
	select {
	case err := <-done:
		if err != nil {
			if ee, ok := err.(*exec.ExitError); ok {
				exit = ee.ExitCode()
			} else {
				exit = -1
			}
		}
	case <-time.After(timeout):
		cmd.Process.Kill()
		<-done
		timed = true
		exit = -2
	}
	var lines []line12
	sc := bufio.NewScanner(&so)
	sc.Buffer(make([]byte, 1<<20), 1<<28)
	for sc.Scan() {
		var l line12
		if json.Unmarshal(sc.Bytes(), &l) == nil && l.Ev != "" {
			lines = append(lines, l)
		}
	}
	return lines, exit, se.String(), timed
}

func (x *c12) runHist(h h12) (*res12, string) {
	f, err := os.CreateTemp(x.e.scratch, "hist-*.json")
	if err != nil {
		return nil, err.Error()
	}
	b, _ := json.Marshal(h)
	f.Write(b)
	f.Close()
	defer os.Remove(f.Name())
	lines, exit, se, timed := x.spawn(60*time.Second, "100", "-replay", f.Name())
	if timed {
		// a history that does not terminate is itself a finding of the "hang" class
		return &res12{Verdict: "hang", Detail: "executing the history did not finish within 60 s"}, ""
	}
	for _, l := range lines {
		if l.Ev == "end" && l.Res != nil {
			if l.Res.Verdict == "internal" {
				return nil, "worker: " + l.Res.Detail
			}
			return l.Res, ""
		}
	}
	if goCrash(se) {
		return &res12{Verdict: "crash", Detail: "the process died while executing this history: " + head(crashLine(se), 400)}, ""
	}
	return nil, fmt.Sprintf("worker exited with status %d without a result: %s", exit, tail(se, 2000))
}

type agg12 struct {
	mu        sync.Mutex
	runs      uint64
	ops       uint64
	effective uint64
	shapes    map[uint64]struct{}
	shapesNT  map[uint64]struct{}
	opKinds   map[string]uint64
	fired     map[string]uint64
	probes    map[string]uint64
	byInit    map[string]uint64
	byProfile map[string]uint64
	faultRuns uint64
	failures  []*fail12
	internal  uint64
	troubleS  string
	outHashes map[uint64]uint64 // run index -> hash (determinism)
}

func newAgg12() *agg12 {
	return &agg12{shapes: map[uint64]struct{}{}, shapesNT: map[uint64]struct{}{}, opKinds: map[string]uint64{}, fired: map[string]uint64{},
		probes: map[string]uint64{}, byInit: map[string]uint64{}, byProfile: map[string]uint64{}, outHashes: map[uint64]uint64{}}
}

func (x *c12) sweep(a *agg12, base uint64, first uint64, deadline time.Time, workers int, chunk uint64, maxRuns uint64, record bool) {
	next := first
	var stop int32
	var wg sync.WaitGroup
	for w := 0; w < workers; w++ {
		wg.Add(1)
		go func() {
			defer wg.Done()
			for atomic.LoadInt32(&stop) == 0 && time.Now().Before(deadline) {
				from := atomic.AddUint64(&next, chunk) - chunk
				if maxRuns > 0 && from >= first+maxRuns {
					return
				}
				to := from + chunk
				if maxRuns > 0 && to > first+maxRuns {
					to = first + maxRuns
				}
				args := []string{"-base", fmt.Sprint(base), "-from", fmt.Sprint(from), "-to", fmt.Sprint(to), "-profile", "mixed"}
				if x.enum {
					args = append(args, "-enum")
				} else if x.e.tier == "thorough" && !record && (to/chunk)%2 == 0 {
					args = append(args, "-deep")
				}
			respawn:
				lines, exit, se, timed := x.spawn(300*time.Second, "100", args...)
				var crashed *fail12
				if timed || exit != 0 {
					// find the in-flight run
					var infl *line12
					for i := range lines {
						if lines[i].Ev == "start" {
							infl = &lines[i]
						} else if lines[i].Ev == "end" {
							infl = nil
						}
					}
					if infl != nil && !timed && goCrash(se) {
						// the library (or the harness) crashed the process while executing
						// this history: obtain the history without executing it and treat
						// the crash as a failure of class "crash"
						gargs := append(append([]string{}, args...), "-genonly")
						for k := range gargs {
							if gargs[k] == "-from" {
								gargs[k+1] = fmt.Sprint(infl.I)
							}
							if gargs[k] == "-to" {
								gargs[k+1] = fmt.Sprint(infl.I + 1)
							}
						}
						glines, _, _, _ := x.spawn(60*time.Second, "100", gargs...)
						for _, gl := range glines {
							if gl.Ev == "gen" && gl.I == infl.I {
								var h h12
								json.Unmarshal(gl.Hist, &h)
								crashed = &fail12{I: infl.I, Seed: infl.Seed, Profile: infl.Profile, Hist: h,
									Res: &res12{Seed: infl.Seed, Verdict: "crash", Detail: "the process died while executing this history: " + head(crashLine(se), 400)}}
							}
						}
					}
					if crashed == nil {
						a.mu.Lock()
						if infl != nil && timed {
							a.troubleS = fmt.Sprintf("history %d (seed %d) did not finish within the watchdog", infl.I, infl.Seed)
						} else {
							a.troubleS = fmt.Sprintf("worker exited with status %d: %s", exit, tail(se, 2000))
						}
						a.mu.Unlock()
						atomic.StoreInt32(&stop, 1)
						return
					}
				}
				a.mu.Lock()
				for i := range lines {
					l := &lines[i]
					if l.Ev != "end" || l.Res == nil {
						continue
					}
					r := l.Res
					if r.Verdict == "internal" {
						a.internal++
						if a.troubleS == "" && a.internal > 0 {
							a.troubleS = "the generator produced an invalid initial file: " + head(r.Detail, 1500)
						}
						continue
					}
					a.runs++
					a.ops += uint64(r.NOps)
					a.effective += uint64(r.Effective)
					a.shapes[r.Shape] = struct{}{}
					if r.Effective >= 3 {
						a.shapesNT[r.Shape] = struct{}{}
					}
					a.byInit[r.InitKind]++
					a.byProfile[l.Profile]++
					if !r.FaultFree {
						a.faultRuns++
					}
					for k, v := range r.OpKinds {
						a.opKinds[k] += v
					}
					for k, v := range r.Fired {
						a.fired[k] += v
					}
					for k, v := range r.Probes {
						a.probes[k] += v
					}
					if record {
						a.outHashes[l.I] = r.OutHash ^ strHash64(r.Verdict)
					}
					if r.Verdict != "ok" {
						var h h12
						json.Unmarshal(l.Hist, &h)
						a.failures = append(a.failures, &fail12{I: l.I, Seed: l.Seed, Profile: l.Profile, Res: r, Hist: h})
					}
				}
				ncrash := 0
				if crashed != nil {
					a.runs++
					a.failures = append(a.failures, crashed)
					for _, f := range a.failures {
						if f.Res.Verdict == "crash" {
							ncrash++
						}
					}
				}
				a.mu.Unlock()
				if crashed != nil && crashed.I+1 < to && ncrash < 20 {
					for k := range args {
						if args[k] == "-from" {
							args[k+1] = fmt.Sprint(crashed.I + 1)
						}
					}
					goto respawn
				}
			}
		}()
	}
	wg.Wait()
}

// goCrash recognises the Go runtime's own fatal exits.
func goCrash(stderr string) bool {
	return strings.Contains(stderr, "fatal error: stack overflow") || strings.Contains(stderr, "goroutine stack exceeds") ||
		strings.Contains(stderr, "panic: ") || strings.Contains(stderr, "fatal error: ")
}

func crashLine(stderr string) string {
	for _, l := range strings.Split(stderr, "\n") {
		if strings.Contains(l, "fatal error") || strings.HasPrefix(l, "panic:") || strings.Contains(l, "stack exceeds") {
			return l
		}
	}
	return head(stderr, 200)
}

func strHash64(s string) uint64 {
	h := uint64(0xcbf29ce484222325)
	for i := 0; i < len(s); i++ {
		h = (h ^ uint64(s[i])) * 0x100000001b3
	}
	return h
}

// ---- minimisation (delta debugging over the explicit history) ----

func cloneH(h h12) h12 {
	b, _ := json.Marshal(h)
	var n h12
	d := json.NewDecoder(bytes.NewReader(b))
	d.UseNumber()
	d.Decode(&n)
	return n
}

func opsOf(h h12) []any {
	o, _ := h["ops"].([]any)
	return o
}

func sig12(r *res12) string {
	d := r.Detail
	// strip positions and concrete names
	if i := strings.Index(d, "\n"); i > 0 {
		d = d[:i]
	}
	cut := func(s, from string) string {
		if i := strings.Index(s, from); i >= 0 {
			return s[:i]
		}
		return s
	}
	switch r.Verdict {
	case "invalid_output":
		parts := strings.Split(d, "|")
		if len(parts) > 1 {
			d = parts[1]
		}
	case "accessor_mismatch", "model_mismatch", "token_loss", "value_mismatch":
		if i := strings.Index(d, ": "); i >= 0 {
			d = d[i+2:]
		}
		d = cut(d, "\"")
		d = cut(d, "(")
		d = strings.TrimRight(d, "0123456789 ")
	case "panic":
		d = cut(d, ":")
	}
	return r.Verdict + "|" + d
}

func (x *c12) minimise(f *fail12, budget time.Duration) (h12, *res12, int) {
	deadline := time.Now().Add(budget)
	want := f.Res.Verdict
	cur := cloneH(f.Hist)
	best := f.Res
	tried := 0
	try := func(c h12) bool {
		if time.Now().After(deadline) {
			return false
		}
		tried++
		r, tr := x.runHist(c)
		if tr != "" || r == nil || r.Verdict != want {
			return false
		}
		cur, best = c, r
		return true
	}
	// 1. truncate after the failing op
	if best.OpIndex >= 0 && best.OpIndex+1 < len(opsOf(cur)) {
		c := cloneH(cur)
		c["ops"] = opsOf(c)[:best.OpIndex+1]
		try(c)
	}
	for pass := 0; pass < 4 && time.Now().Before(deadline); pass++ {
		progress := false
		// 2. ddmin over ops
		for size := (len(opsOf(cur)) + 1) / 2; size >= 1; size /= 2 {
			for i := 0; i+size <= len(opsOf(cur)); {
				c := cloneH(cur)
				ops := opsOf(c)
				c["ops"] = append(append([]any{}, ops[:i]...), ops[i+size:]...)
				if try(c) {
					progress = true
				} else {
					i += size
				}
			}
		}
		// 3. pre-population of fresh blocks, paths
		for i := range opsOf(cur) {
			op, _ := opsOf(cur)[i].(map[string]any)
			if op == nil {
				continue
			}
			for _, key := range []string{"pre", "path", "labels", "trav"} {
				if l, ok := op[key].([]any); ok && len(l) > 0 {
					for k := len(l) - 1; k >= 0; k-- {
						c := cloneH(cur)
						o2 := opsOf(c)[i].(map[string]any)
						l2 := o2[key].([]any)
						o2[key] = append(append([]any{}, l2[:k]...), l2[k+1:]...)
						if try(c) {
							progress = true
						}
					}
				}
			}
		}
		// 4. initial file: flags, then items (recursively)
		if init, ok := cur["init"].(map[string]any); ok {
			for _, flag := range []string{"crlf", "no_final_nl", "tail_comment"} {
				if v, ok := init[flag]; ok && v != nil && v != false && v != "" {
					c := cloneH(cur)
					delete(c["init"].(map[string]any), flag)
					if try(c) {
						progress = true
					}
				}
			}
			if x.shrinkBody(&cur, []string{"init", "body"}, try) {
				progress = true
			}
		}
		if !progress {
			break
		}
	}
	return cur, best, tried
}

// bodyAt walks to the body object at the given key path.
func bodyAt(h h12, path []string) map[string]any {
	var m map[string]any = h
	for _, k := range path {
		if strings.HasPrefix(k, "#") {
			var idx int
			fmt.Sscanf(k, "#%d", &idx)
			items, _ := m["items"].([]any)
			if idx >= len(items) {
				return nil
			}
			it, _ := items[idx].(map[string]any)
			if it == nil {
				return nil
			}
			b, _ := it["body"].(map[string]any)
			if b == nil {
				return nil
			}
			m = b
			continue
		}
		n, _ := m[k].(map[string]any)
		if n == nil {
			return nil
		}
		m = n
	}
	return m
}

func (x *c12) shrinkBody(cur *h12, path []string, try func(h12) bool) bool {
	progress := false
	b := bodyAt(*cur, path)
	if b == nil {
		return false
	}
	items, _ := b["items"].([]any)
	for i := len(items) - 1; i >= 0; i-- {
		c := cloneH(*cur)
		cb := bodyAt(c, path)
		ci := cb["items"].([]any)
		cb["items"] = append(append([]any{}, ci[:i]...), ci[i+1:]...)
		if try(c) {
			progress = true
		}
	}
	// decorations of the surviving items
	b = bodyAt(*cur, path)
	items, _ = b["items"].([]any)
	for i := range items {
		it, _ := items[i].(map[string]any)
		for _, key := range []string{"blank", "free", "lead", "inline", "line_cmt", "pre_label", "open_cmt", "eq_cmt", "label_cmt", "labels"} {
			if v, ok := it[key]; ok && v != nil {
				c := cloneH(*cur)
				delete(bodyAt(c, path)["items"].([]any)[i].(map[string]any), key)
				if try(c) {
					progress = true
				}
			}
		}
	}
	b = bodyAt(*cur, path)
	items, _ = b["items"].([]any)
	for i := range items {
		it, _ := items[i].(map[string]any)
		if _, ok := it["body"].(map[string]any); ok {
			if x.shrinkBody(cur, append(append([]string{}, path...), fmt.Sprintf("#%d", i)), try) {
				progress = true
			}
		}
	}
	return progress
}

// ---- known-finding attribution (interventional) ----

func mapStrings(v any, f func(string) string) any {
	switch t := v.(type) {
	case string:
		return f(t)
	case []any:
		for i := range t {
			t[i] = mapStrings(t[i], f)
		}
		return t
	}
	return v
}

func walkItems(body map[string]any, f func(item map[string]any)) {
	items, _ := body["items"].([]any)
	for _, it := range items {
		m, _ := it.(map[string]any)
		if m == nil {
			continue
		}
		f(m)
		if b, ok := m["body"].(map[string]any); ok {
			walkItems(b, f)
		}
	}
}

func walkOps(ops []any, f func(op map[string]any)) {
	for _, o := range ops {
		m, _ := o.(map[string]any)
		if m == nil {
			continue
		}
		f(m)
		if pre, ok := m["pre"].([]any); ok {
			walkOps(pre, f)
		}
	}
}

func intervene12(h h12, iv string) h12 {
	n := cloneH(h)
	changed := false
	init, _ := n["init"].(map[string]any)
	switch iv {
	case "expand-one-line-blocks":
		if init != nil {
			if b, ok := init["body"].(map[string]any); ok {
				walkItems(b, func(it map[string]any) {
					if v, _ := it["one_line"].(bool); v {
						delete(it, "one_line")
						changed = true
					}
				})
			}
		}
	case "plain-template-escapes-in-labels":
		fix := func(s string) string {
			r := strings.ReplaceAll(strings.ReplaceAll(s, "$${", "$-{"), "%%{", "%-{")
			if r != s {
				changed = true
			}
			return r
		}
		if init != nil {
			if b, ok := init["body"].(map[string]any); ok {
				walkItems(b, func(it map[string]any) {
					if ls, ok := it["labels"].([]any); ok {
						for _, l := range ls {
							if lm, ok := l.(map[string]any); ok {
								if t, ok := lm["text"].(string); ok {
									lm["text"] = fix(t)
								}
							}
						}
					}
				})
			}
		}
		walkOps(opsOf(n), func(op map[string]any) {
			if ls, ok := op["labels"]; ok {
				op["labels"] = mapStrings(ls, fix)
			}
		})
	case "no-heredoc-raw":
		// K2 is about an expression that ENDS in a heredoc: only the
		// top-level recipe is neutralised.  A heredoc nested in a generated
		// object is followed by the member's own newline and must work.
		walkOps(opsOf(n), func(op map[string]any) {
			if r, ok := op["raw"].(map[string]any); ok {
				if src, ok := r["src"].(string); ok && strings.HasPrefix(src, "<<") {
					r["src"] = "\"h\""
					changed = true
				}
			}
		})
	default:
		return nil
	}
	if !changed {
		return nil
	}
	return n
}

// attribute decides whether a failing history is explained by recorded
// findings: every applicable intervention is applied (a history can contain
// the ingredients of several findings, and neutralising one may merely expose
// the next), the neutralised history must then pass, and at least one of the
// neutralised findings must name the class of the observed failure.
func (x *c12) attribute(h h12, r *res12, fs []finding) *finding {
	n := h
	var applied []*finding
	for i := range fs {
		k := &fs[i]
		if k.Kind != "known" {
			continue
		}
		if n2 := intervene12(n, k.Intervention); n2 != nil {
			n = n2
			applied = append(applied, k)
		}
	}
	var match *finding
	for _, k := range applied {
		if classMatches(k.Class, r.Verdict) {
			match = k
			break
		}
	}
	if match == nil {
		return nil
	}
	nr, tr := x.runHist(n)
	if tr == "" && nr != nil && nr.Verdict == "ok" {
		return match
	}
	return nil
}

// classMatches: a finding may name several classes, separated by commas.
func classMatches(classes, verdict string) bool {
	for _, c := range strings.Split(classes, ",") {
		if c == verdict {
			return true
		}
	}
	return false
}

func describe12(h h12, r *res12) string {
	var b strings.Builder
	fmt.Fprintf(&b, "  class: %s at op %d\n  %s\n", r.Verdict, r.OpIndex, indent(head(r.Detail, 2500), "  "))
	if init, ok := h["init"].(map[string]any); ok {
		ib, _ := json.Marshal(init)
		fmt.Fprintf(&b, "  initial file: %s\n", head(string(ib), 1500))
	}
	for i, o := range opsOf(h) {
		ob, _ := json.Marshal(o)
		fmt.Fprintf(&b, "  op %d: %s\n", i, head(string(ob), 400))
	}
	if r.Source != "" {
		fmt.Fprintf(&b, "  last serialised file:\n%s\n", indent(head(r.Source, 2000), "    | "))
	}
	return b.String()
}

func (x *c12) writeReplay(h h12, r *res12, name string) string {
	c := cloneH(h)
	c["expect"] = map[string]any{"verdict": r.Verdict, "detail": head(r.Detail, 3000), "op_index": r.OpIndex}
	c["tree"] = treeHash()
	dir := filepath.Join(verifDir, "replays")
	os.MkdirAll(dir, 0o755)
	p := filepath.Join(dir, name)
	b, _ := json.MarshalIndent(c, "", " ")
	os.WriteFile(p, append(b, '\n'), 0o644)
	return p
}

func warmC12(e *env) {
	x := &c12{e: e}
	x.build()
	cleanup(e)
}

func mainC12(e *env) {
	x := &c12{e: e}
	x.build()
	defer cleanup(e)

	if e.replay != "" {
		b, err := os.ReadFile(e.replay)
		if err != nil {
			trouble(e, "cannot read replay file: %v", err)
		}
		var h h12
		d := json.NewDecoder(bytes.NewReader(b))
		d.UseNumber()
		if err := d.Decode(&h); err != nil {
			trouble(e, "cannot parse replay file: %v", err)
		}
		exp, _ := h["expect"].(map[string]any)
		delete(h, "expect")
		r, tr := x.runHist(h)
		if tr != "" {
			trouble(e, "%s", tr)
		}
		if r.Verdict == "ok" {
			fmt.Printf("REPLAY property=C12 file=%s: no violation on this tree (verdict ok)\n", e.replay)
			if exp != nil {
				fmt.Printf("  (the file records verdict %v on tree %v)\n", exp["verdict"], h["tree"])
			}
			cleanup(e)
			os.Exit(0)
		}
		fmt.Printf("REPLAY property=C12 file=%s reproduces:\n%s", e.replay, describe12(h, r))
		fmt.Printf("VIOLATION property=C12 replay=%s\n", e.replay)
		cleanup(e)
		os.Exit(1)
	}

	secs := 30
	detRuns := uint64(2000)
	minBudget := 40 * time.Second
	maxMin := 6
	if e.tier == "thorough" {
		secs = 900
		detRuns = 40000
		minBudget = 120 * time.Second
		maxMin = 12
	}
	if e.seconds > 0 {
		secs = e.seconds
	}
	fmt.Printf("C12 %s: tree %s, batch seed %d, build %.1fs\n", e.tier, treeHash(), e.seed, x.buildS)

	// determinism: the same run indices in separate processes (different GC settings) give identical outcomes
	d1, d2 := newAgg12(), newAgg12()
	detBase := e.seed ^ 0x5151515151
	x.sweep(d1, detBase, 0, time.Now().Add(10*time.Minute), 16, 125, detRuns, true)
	x.sweepGC(d2, detBase, detRuns)
	if d1.troubleS != "" || d2.troubleS != "" {
		trouble(e, "determinism self-test: %s %s", d1.troubleS, d2.troubleS)
	}
	div := 0
	for i, hsh := range d1.outHashes {
		if h2, ok := d2.outHashes[i]; ok && h2 != hsh {
			div++
			if div < 5 {
				fmt.Printf("  nondeterminism: history %d gives different outcomes in two processes\n", i)
			}
		}
	}
	if div > 0 {
		trouble(e, "the history simulator is not deterministic (%d of %d histories differ between processes)", div, len(d1.outHashes))
	}
	fmt.Printf("  determinism: %d histories executed twice in separate processes (GOGC=100 / GOGC=1) with identical outcomes\n", len(d1.outHashes))

	// systematic part: every ordered pair of canonical operations on every canonical layout
	en := newAgg12()
	enumN := x.enumSize()
	if e.tier != "thorough" {
		// quick: a seed-chosen quarter of the enumeration
		enumN /= 4
	}
	t0e := time.Now()
	x.enum = true
	x.sweep(en, 0, (e.seed%4)*enumN*boolTo(e.tier != "thorough"), time.Now().Add(20*time.Minute), 16, 500, enumN, false)
	x.enum = false
	if en.troubleS != "" {
		trouble(e, "%s", en.troubleS)
	}
	fmt.Printf("  enumeration: %d histories (layout x ops) in %.1fs, %d failing\n", en.runs, time.Since(t0e).Seconds(), len(en.failures))

	a := newAgg12()
	a.failures = append(a.failures, en.failures...)
	t1 := time.Now()
	x.sweep(a, e.seed, 0, time.Now().Add(time.Duration(secs)*time.Second), 16, 250, 0, false)
	sweepS := time.Since(t1).Seconds()
	if a.troubleS != "" {
		trouble(e, "%s", a.troubleS)
	}
	fmt.Printf("  sweep: %d histories in %.1fs (%.0f/hour), %d ops (%d effective edits), %d distinct op-kind shapes with >=3 effective edits, %d failing histories\n",
		a.runs, sweepS, float64(a.runs)/sweepS*3600, a.ops, a.effective, len(a.shapesNT), len(a.failures))

	// failures: group by signature, minimise one per group, attribute
	known := loadFindings("C12")
	sort.Slice(a.failures, func(i, j int) bool {
		if len(opsOf(a.failures[i].Hist)) != len(opsOf(a.failures[j].Hist)) {
			return len(opsOf(a.failures[i].Hist)) < len(opsOf(a.failures[j].Hist))
		}
		return a.failures[i].I < a.failures[j].I
	})
	groups := map[string][]*fail12{}
	var order []string
	for _, f := range a.failures {
		s := sig12(f.Res)
		if _, ok := groups[s]; !ok {
			order = append(order, s)
		}
		groups[s] = append(groups[s], f)
	}
	violations := 0
	knownHit := map[string]int{}
	knownPrinted := map[string]bool{}
	var vioSamples []any
	minimised := 0
	reported := map[string]bool{}
	for _, s := range order {
		if violations >= 5 {
			fmt.Printf("  note: %d further failure groups not examined after 5 reported violations\n", len(order))
			break
		}
		g := groups[s]
		f := g[0] // shortest history of the group
		if k := x.attribute(f.Hist, f.Res, known); k != nil {
			knownHit[k.ID] += len(g)
			if !knownPrinted[k.ID] {
				knownPrinted[k.ID] = true
				fmt.Printf("KNOWN-FINDING: property=C12 id=%s %s\n", k.ID, k.Text)
			}
			continue
		}
		r0, tr := x.runHist(f.Hist)
		if tr != "" {
			trouble(e, "confirming history %d: %s", f.I, tr)
		}
		if r0.Verdict != f.Res.Verdict {
			trouble(e, "history %d (seed %d) failed with %s in the sweep but %s in a fresh process: nondeterministic", f.I, f.Seed, f.Res.Verdict, r0.Verdict)
		}
		min, mr, tried := f.Hist, f.Res, 0
		if minimised < maxMin {
			minimised++
			min, mr, tried = x.minimise(f, minBudget)
			if k := x.attribute(min, mr, known); k != nil {
				knownHit[k.ID] += len(g)
				if !knownPrinted[k.ID] {
					knownPrinted[k.ID] = true
					fmt.Printf("KNOWN-FINDING: property=C12 id=%s %s\n", k.ID, k.Text)
				}
				continue
			}
		}
		ms := sig12(mr)
		if reported[ms] {
			continue
		}
		reported[ms] = true
		violations++
		p := x.writeReplay(min, mr, fmt.Sprintf("C12-%s-%d-%s.json", mr.Verdict, f.Seed, shortTree()))
		fmt.Printf("violation (history %d, seed %d; %d histories in this group; minimised with %d candidate runs to %d ops):\n%s", f.I, f.Seed, len(g), tried, len(opsOf(min)), describe12(min, mr))
		fmt.Printf("VIOLATION property=C12 replay=%s\n", p)
		vioSamples = append(vioSamples, map[string]any{"class": mr.Verdict, "seed": f.Seed, "replay": p})
	}

	hours := sweepS / 3600
	ev := &evidence{Level: "exploration", Violations: violations}
	ev.Coverage = map[string]any{
		"evaluations":         a.runs,
		"distinct_nontrivial": len(a.shapesNT),
		"rule": "one evaluation = one simulated history (initial file + up to 40 writer-API operations with concrete arguments, mirrored in a list/map reference model, accessors compared after every operation, serialised file re-parsed and compared at every save point); " +
			"distinct_nontrivial = number of distinct sequences of (operation kind, addressing mode) among histories with at least 3 effective edits (edits that changed the model)",
		"samples":                     x.samples(2),
		"histories_per_hour":          float64(a.runs) / hours,
		"enumerated_histories":        en.runs,
		"enumeration_rule":            "every ordered pair of the canonical operations applied to every canonical layout of a small initial file (quick: a seed-chosen quarter of the pairs; thorough: all pairs, then every ordered triple on twelve key layouts)",
		"seeds":                       a.runs,
		"simulated_time_steps":        a.ops,
		"effective_edits":             a.effective,
		"op_kinds":                    a.opKinds,
		"initial_file_kinds":          a.byInit,
		"runs_by_profile":             a.byProfile,
		"histories_with_env_events":   a.faultRuns,
		"faults_fired":                a.fired,
		"probes":                      a.probes,
		"distinct_shapes_all":         len(a.shapes),
		"determinism_histories_twice": len(d1.outHashes),
		"failing_histories":           len(a.failures),
		"failure_groups":              len(order),
		"known_findings_hit":          knownHit,
		"violations_reported":         vioSamples,
		"build_seconds":               x.buildS,
		"tree":                        treeHash(),
		"components_real":             []string{"hclwrite (all of it, unmodified, built from /repo's working tree)", "hclsyntax scanner/parser/evaluator as reader of the saved file", "go-cty"},
		"components_simulated_or_stub": []string{"the editing application (operation histories)", "the writer passed to WriteTo (fails after k bytes / short write)", "restart: the tree is discarded and re-loaded from the saved bytes"},
		"components_absent":           []string{"no concurrency, clock or network in hclwrite: one client, the explored space is operation order x arguments x fault placement"},
	}
	ev.Assumptions = []string{
		"hclsyntax is trusted as the reader of the serialised file",
		"the ~200-line reference model and the token attribution (lead/line/free comments) encode the documented hclwrite semantics",
		"sampling, not proof",
	}
	writeEvidence(e, ev)
	cleanup(e)
	if violations > 0 {
		os.Exit(1)
	}
	fmt.Printf("C12 %s: property held on everything explored (%d histories", e.tier, a.runs)
	if len(knownHit) > 0 {
		fmt.Printf("; known findings hit: %v", knownHit)
	}
	fmt.Println(")")
	os.Exit(0)
}

// sweepGC repeats the determinism range with an aggressive collector (different allocation addresses).
func (x *c12) sweepGC(a *agg12, base uint64, n uint64) {
	var wg sync.WaitGroup
	chunk := uint64(125)
	var mu sync.Mutex
	for from := uint64(0); from < n; from += chunk * 16 {
		for w := uint64(0); w < 16; w++ {
			f := from + w*chunk
			if f >= n {
				break
			}
			t := f + chunk
			if t > n {
				t = n
			}
			wg.Add(1)
			go func(f, t uint64) {
				defer wg.Done()
				lines, exit, se, timed := x.spawn(300*time.Second, "1", "-base", fmt.Sprint(base), "-from", fmt.Sprint(f), "-to", fmt.Sprint(t), "-profile", "mixed")
				mu.Lock()
				defer mu.Unlock()
				if timed || exit != 0 {
					a.troubleS = fmt.Sprintf("worker exited with status %d: %s", exit, tail(se, 1000))
					return
				}
				for i := range lines {
					l := &lines[i]
					if l.Ev == "end" && l.Res != nil && l.Res.Verdict != "internal" {
						a.outHashes[l.I] = l.Res.OutHash ^ strHash64(l.Res.Verdict)
					}
				}
			}(f, t)
		}
		wg.Wait()
	}
}

func (x *c12) samples(n int) []any {
	var out []any
	lines, _, _, _ := x.spawn(60*time.Second, "100", "-base", fmt.Sprint(x.e.seed), "-from", "0", "-to", "40", "-profile", "mixed", "-emithist")
	for _, l := range lines {
		if l.Ev == "end" && l.Res != nil && l.Res.Effective >= 3 && len(out) < n {
			var h h12
			json.Unmarshal(l.Hist, &h)
			hb, _ := json.Marshal(h)
			var hs any = h
			if len(hb) > 6000 {
				hs = head(string(hb), 6000)
			}
			out = append(out, map[string]any{"run_index": l.I, "run_seed": l.Seed, "profile": l.Profile, "verdict": l.Res.Verdict, "effective_edits": l.Res.Effective, "history": hs})
		}
	}
	if len(out) == 0 {
		out = append(out, "no history with >=3 effective edits among the first 40")
	}
	return out
}
