package main

import "fmt"

func mainC12(e *env) {
	fmt.Println("C12 not built yet")
}

func warmC12(e *env) {}
