// instrument rewrites a scratch copy of hashicorp/hcl in place:
//   - a zzsim.Yield(<site>) call at the top of every function body (FuncDecl and
//     FuncLit) of every non-test library file, inserted on the same line as the
//     opening brace so that line numbers do not change;
//   - import "sync" and import "sync/atomic" replaced by the simulator-aware
//     wrapper packages;
//   - a generated site table in <root>/zzsim/sites_gen.go.
//
// It reports (JSON on stdout) how many files/sites were touched and whether the
// library contains go statements, channel operations or select (constructs the
// baton scheduler does not control).
package main

import (
	"encoding/json"
	"fmt"
	"go/ast"
	"go/parser"
	"go/token"
	"os"
	"path/filepath"
	"sort"
	"strconv"
	"strings"
)

const modPath = "github.com/hashicorp/hcl/v2"

type edit struct {
	off  int
	del  int
	text string
}

type report struct {
	Files        int      `json:"files"`
	Sites        int      `json:"sites"`
	SyncImports  []string `json:"sync_imports"`
	AtomicImports []string `json:"atomic_imports"`
	GoStmts      []string `json:"go_statements"`
	ChanOps      []string `json:"chan_ops"`
	Selects      []string `json:"selects"`
	RangeOverMap int      `json:"range_stmts"`
	RecvRewritten int     `json:"chan_receives_rewritten"`
}

func main() {
	if len(os.Args) != 2 {
		fmt.Fprintln(os.Stderr, "usage: instrument <root of scratch copy>")
		os.Exit(2)
	}
	root := os.Args[1]
	var rep report
	var sites []string
	skipDirs := map[string]bool{"cmd": true, "specsuite": true, "zzsim": true, "testdata": true, ".git": true, "integrationtest": true}
	var files []string
	err := filepath.Walk(root, func(p string, info os.FileInfo, err error) error {
		if err != nil {
			return err
		}
		if info.IsDir() {
			if p != root && (skipDirs[info.Name()] || strings.HasPrefix(info.Name(), ".") || strings.HasPrefix(info.Name(), "_")) {
				return filepath.SkipDir
			}
			return nil
		}
		if strings.HasSuffix(p, ".go") && !strings.HasSuffix(p, "_test.go") {
			files = append(files, p)
		}
		return nil
	})
	if err != nil {
		fmt.Fprintln(os.Stderr, "instrument:", err)
		os.Exit(2)
	}
	sort.Strings(files)
	for _, p := range files {
		rel, _ := filepath.Rel(root, p)
		src, err := os.ReadFile(p)
		if err != nil {
			fmt.Fprintln(os.Stderr, "instrument:", err)
			os.Exit(2)
		}
		fset := token.NewFileSet()
		f, err := parser.ParseFile(fset, p, src, parser.ParseComments|parser.SkipObjectResolution)
		if err != nil {
			// a tree that does not parse does not compile: harness trouble, not a violation
			fmt.Fprintln(os.Stderr, "instrument: parse error:", err)
			os.Exit(2)
		}
		if f.Name.Name == "main" {
			continue
		}
		if hasIgnoreConstraint(f) {
			continue
		}
		tf := fset.File(f.Pos())
		off := func(pos token.Pos) int { return tf.Offset(pos) }
		pkg := f.Name.Name
		var edits []edit
		// function names for the site table
		var stack []string
		var litCount []int
		var visit func(n ast.Node) bool
		recv2 := map[*ast.UnaryExpr]bool{}
		addSite := func(name string, body *ast.BlockStmt) {
			id := len(sites)
			line := tf.Line(body.Lbrace)
			sites = append(sites, fmt.Sprintf("%s.%s@%s:%d", pkg, name, rel, line))
			edits = append(edits, edit{off: off(body.Lbrace) + 1, text: "zzsim.Yield(" + strconv.Itoa(id) + ");"})
		}
		visit = func(n ast.Node) bool {
			switch x := n.(type) {
			case *ast.FuncDecl:
				if x.Body == nil {
					return false
				}
				name := x.Name.Name
				if x.Recv != nil && len(x.Recv.List) > 0 {
					name = "(" + typeString(x.Recv.List[0].Type) + ")." + name
				}
				addSite(name, x.Body)
				stack = append(stack, name)
				litCount = append(litCount, 0)
				ast.Inspect(x.Body, visit)
				stack = stack[:len(stack)-1]
				litCount = litCount[:len(litCount)-1]
				return false
			case *ast.FuncLit:
				base := "glob"
				if len(stack) > 0 {
					base = stack[len(stack)-1]
					litCount[len(litCount)-1]++
					base = fmt.Sprintf("%s.func%d", base, litCount[len(litCount)-1])
				}
				addSite(base, x.Body)
				stack = append(stack, base)
				litCount = append(litCount, 0)
				ast.Inspect(x.Body, visit)
				stack = stack[:len(stack)-1]
				litCount = litCount[:len(litCount)-1]
				return false
			case *ast.GoStmt:
				rep.GoStmts = append(rep.GoStmts, fmt.Sprintf("%s:%d", rel, tf.Line(x.Pos())))
			case *ast.SendStmt:
				rep.ChanOps = append(rep.ChanOps, fmt.Sprintf("%s:%d", rel, tf.Line(x.Pos())))
			case *ast.AssignStmt:
				// v, ok := <-ch
				if len(x.Lhs) == 2 && len(x.Rhs) == 1 {
					if u, ok := x.Rhs[0].(*ast.UnaryExpr); ok && u.Op == token.ARROW {
						recv2[u] = true
					}
				}
			case *ast.ValueSpec:
				if len(x.Names) == 2 && len(x.Values) == 1 {
					if u, ok := x.Values[0].(*ast.UnaryExpr); ok && u.Op == token.ARROW {
						recv2[u] = true
					}
				}
			case *ast.UnaryExpr:
				if x.Op == token.ARROW {
					rep.ChanOps = append(rep.ChanOps, fmt.Sprintf("%s:%d", rel, tf.Line(x.Pos())))
					// a receive becomes a polling receive under the scheduler
					fn := "zzsim.Recv("
					if recv2[x] {
						fn = "zzsim.Recv2("
					}
					edits = append(edits, edit{off: off(x.OpPos), del: 2, text: fn})
					edits = append(edits, edit{off: off(x.X.End()), text: ")"})
					rep.RecvRewritten++
				}
			case *ast.SelectStmt:
				rep.Selects = append(rep.Selects, fmt.Sprintf("%s:%d", rel, tf.Line(x.Pos())))
				// the communication clauses stay as they are; their bodies are walked
				for _, cl := range x.Body.List {
					if cc, ok := cl.(*ast.CommClause); ok {
						for _, st := range cc.Body {
							ast.Inspect(st, visit)
						}
					}
				}
				return false
			case *ast.RangeStmt:
				rep.RangeOverMap++
			}
			return true
		}
		for _, d := range f.Decls {
			ast.Inspect(d, visit)
		}
		// imports
		for _, im := range f.Imports {
			path, _ := strconv.Unquote(im.Path.Value)
			if path == "sync" {
				name := "sync"
				start := off(im.Path.Pos())
				if im.Name != nil {
					name = im.Name.Name
					start = off(im.Name.Pos())
				}
				end := off(im.Path.End())
				edits = append(edits, edit{off: start, del: end - start, text: name + " \"" + modPath + "/zzsim/simsync\""})
				rep.SyncImports = append(rep.SyncImports, rel)
			}
			if path == "sync/atomic" {
				name := "atomic"
				start := off(im.Path.Pos())
				if im.Name != nil {
					name = im.Name.Name
					start = off(im.Name.Pos())
				}
				end := off(im.Path.End())
				edits = append(edits, edit{off: start, del: end - start, text: name + " \"" + modPath + "/zzsim/simatomic\""})
				rep.AtomicImports = append(rep.AtomicImports, rel)
			}
		}
		if len(edits) == 0 {
			continue
		}
		// add the zzsim import right after the package clause, same line
		edits = append(edits, edit{off: off(f.Name.End()), text: "; import zzsim \"" + modPath + "/zzsim\""})
		sort.SliceStable(edits, func(i, j int) bool { return edits[i].off > edits[j].off })
		out := src
		for _, e := range edits {
			out = append(out[:e.off:e.off], append([]byte(e.text), out[e.off+e.del:]...)...)
		}
		if err := os.WriteFile(p, out, 0o644); err != nil {
			fmt.Fprintln(os.Stderr, "instrument:", err)
			os.Exit(2)
		}
		rep.Files++
	}
	rep.Sites = len(sites)
	// site table
	var b strings.Builder
	b.WriteString("// Code generated by /verif/tools/cmd/instrument. DO NOT EDIT.\n\npackage zzsim\n\n")
	b.WriteString("var SiteNames = []string{\n")
	for _, s := range sites {
		b.WriteString("\t" + strconv.Quote(s) + ",\n")
	}
	b.WriteString("}\n\nfunc init() { RegisterSites(SiteNames) }\n")
	if err := os.WriteFile(filepath.Join(root, "zzsim", "sites_gen.go"), []byte(b.String()), 0o644); err != nil {
		fmt.Fprintln(os.Stderr, "instrument:", err)
		os.Exit(2)
	}
	json.NewEncoder(os.Stdout).Encode(rep)
}

func hasIgnoreConstraint(f *ast.File) bool {
	for _, cg := range f.Comments {
		if cg.Pos() > f.Package {
			break
		}
		for _, c := range cg.List {
			t := c.Text
			if strings.HasPrefix(t, "//go:build") && (strings.Contains(t, "ignore") || strings.Contains(t, "tools")) {
				return true
			}
			if strings.HasPrefix(t, "// +build") && (strings.Contains(t, "ignore") || strings.Contains(t, "tools")) {
				return true
			}
		}
	}
	return false
}

func typeString(e ast.Expr) string {
	switch x := e.(type) {
	case *ast.Ident:
		return x.Name
	case *ast.StarExpr:
		return "*" + typeString(x.X)
	case *ast.IndexExpr:
		return typeString(x.X)
	case *ast.IndexListExpr:
		return typeString(x.X)
	case *ast.SelectorExpr:
		return typeString(x.X) + "." + x.Sel.Name
	}
	return "?"
}
