// mkoverlay generates, from the toolchain's own GOROOT sources, patched copies
// of runtime/rand.go and runtime/alg.go that make map hashing and iteration
// order a function of a settable salt, a copy of sync/pool.go whose pools never
// retain items, plus the -overlay JSON file.
//
//	mkoverlay <GOROOT> <outdir> <linkname package path>
//
// Exit 2 if an expected source pattern is missing (harness trouble).
package main

import (
	"encoding/json"
	"fmt"
	"os"
	"path/filepath"
	"strings"
)

func must(err error) {
	if err != nil {
		fmt.Fprintln(os.Stderr, "mkoverlay:", err)
		os.Exit(2)
	}
}

func replaceOnce(src, old, new, what string) string {
	if strings.Count(src, old) != 1 {
		fmt.Fprintf(os.Stderr, "mkoverlay: pattern for %s found %d times, want 1\n", what, strings.Count(src, old))
		os.Exit(2)
	}
	return strings.Replace(src, old, new, 1)
}

func main() {
	if len(os.Args) != 4 {
		fmt.Fprintln(os.Stderr, "usage: mkoverlay GOROOT outdir pkgpath")
		os.Exit(2)
	}
	goroot, out, pkg := os.Args[1], os.Args[2], os.Args[3]
	must(os.MkdirAll(out, 0o755))
	randPath := filepath.Join(goroot, "src", "runtime", "rand.go")
	algPath := filepath.Join(goroot, "src", "runtime", "alg.go")
	rb, err := os.ReadFile(randPath)
	must(err)
	ab, err := os.ReadFile(algPath)
	must(err)

	rs := replaceOnce(string(rb), "\nfunc rand() uint64 {\n", "\nfunc simOrigRand() uint64 {\n", "runtime.rand")
	rs += `
// ---- added by /verif/tools/cmd/mkoverlay (simulation binary only) ----

var simMapSalt uint64 = 0x9e3779b97f4a7c15

//go:nosplit
func rand() uint64 { return simMapSalt }

//go:linkname simSetMapSalt ` + pkg + `.setMapSalt
func simSetMapSalt(s uint64) { simMapSalt = s }

//go:linkname simGoid ` + pkg + `.goid
func simGoid() uint64 { return getg().goid }
`
	as := string(ab)
	as = replaceOnce(as, "hashkey[i] = uintptr(bootstrapRand())", "hashkey[i] = uintptr(0x6a09e667f3bcc908 + uint64(i)*0x9e3779b97f4a7c15)", "alginit hashkey")
	as = replaceOnce(as, "key[i] = bootstrapRand()", "key[i] = 0xbb67ae8584caa73b + uint64(i)*0x9e3779b97f4a7c15", "initAlgAES key")

	// sync.Pool: under the race detector Put already drops a quarter of the
	// items at random; the simulation binary drops all of them.  A pool that
	// hands an item from one task to another creates a happens-before edge
	// between two otherwise unrelated tasks (fmt's printer pool does this on
	// every Sprintf), and in a strictly serialised execution such an edge hides
	// every earlier unsynchronised access of the first task from the detector.
	poolPath := filepath.Join(goroot, "src", "sync", "pool.go")
	pb, err := os.ReadFile(poolPath)
	must(err)
	ps := replaceOnce(string(pb), "if runtime_randn(4) == 0 {", "if simPoolDrop {", "sync.Pool.Put")
	ps += `
// ---- added by /verif/tools/cmd/mkoverlay (simulation binary only) ----

// simPoolDrop: pools retain nothing (see mkoverlay).  The simulator switches it
// off for some runs, so that misuse of a pool inside the code under test (an
// item put back dirty, or twice) can still show.
var simPoolDrop = true

//go:linkname simSetPoolDrop ` + pkg + `.setPoolDrop
func simSetPoolDrop(b bool) { simPoolDrop = b }
`
	po := filepath.Join(out, "pool.go")
	must(os.WriteFile(po, []byte(ps), 0o644))

	ro := filepath.Join(out, "rand.go")
	ao := filepath.Join(out, "alg.go")
	must(os.WriteFile(ro, []byte(rs), 0o644))
	must(os.WriteFile(ao, []byte(as), 0o644))
	ov := map[string]map[string]string{"Replace": {randPath: ro, algPath: ao, poolPath: po}}
	jb, _ := json.MarshalIndent(ov, "", " ")
	must(os.WriteFile(filepath.Join(out, "overlay.json"), jb, 0o644))
}
