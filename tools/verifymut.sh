#!/bin/bash
# tools/verifymut.sh <dir with patch.diff and demo_test.go>  — confirm, in a scratch worktree of /repo, that
# the change compiles, the existing suite passes with it, and the demonstration fails with it and passes without it.
set -u
d="$1"
export GOFLAGS=-mod=mod GOPROXY=off GOTOOLCHAIN=auto
wt="/var/tmp/vmut-$$-$(basename $(dirname $d))-$(basename $d)"
git -C /repo worktree add -q --detach "$wt" HEAD || exit 2
trap 'git -C /repo worktree remove --force "$wt" >/dev/null 2>&1' EXIT
pkgline=$(grep -m1 -o 'go test .*' "$d/demo_test.go")
pkg=$(echo "$pkgline" | grep -o '\./[a-z/]*' | tail -1)
# the repository's root package is written as a bare "."
[ -z "$pkg" ] && echo "$pkgline" | grep -q ' \.$' && pkg="."
runpat=$(echo "$pkgline" | sed -n "s/.*-run '\{0,1\}\([A-Za-z0-9_]*\)'\{0,1\}.*/\1/p")
race=""; echo "$pkgline" | grep -q -- '-race' && race="-race"
[ -z "$pkg" ] && { echo "VERIFY $d: cannot find package in demo header"; exit 2; }
cd "$wt"
git apply "$d/patch.diff" || { echo "VERIFY $d: patch does not apply"; exit 1; }
if git diff --name-only | grep -q '_test.go\|^cmd/\|testdata'; then echo "VERIFY $d: patch touches tests"; exit 1; fi
suite=$(go test -vet=off -count=1 ./... 2>&1 | grep -v '^ok\|no test files' | head -5)
cp "$d/demo_test.go" "$wt/$pkg/zz_demo_test.go"
with=$(go test $race -vet=off -count=1 -run "$runpat" "$pkg" 2>&1 | tail -3 | tr '\n' ' ' | cut -c1-160)
withrc=$(go test $race -vet=off -count=1 -run "$runpat" "$pkg" >/dev/null 2>&1; echo $?)
rm "$wt/$pkg/zz_demo_test.go"; git checkout -q -- .
cp "$d/demo_test.go" "$wt/$pkg/zz_demo_test.go"
withoutrc=$(go test $race -vet=off -count=1 -run "$runpat" "$pkg" >/dev/null 2>&1; echo $?)
rm "$wt/$pkg/zz_demo_test.go"
echo "VERIFY $d: suite_failures=[${suite}] demo_with_mutant_rc=$withrc demo_clean_rc=$withoutrc pkg=$pkg run=$runpat $race"
