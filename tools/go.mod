module veriftools

go 1.24
