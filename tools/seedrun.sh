#!/bin/bash
# tools/seedrun.sh <seeded-id> ...   — for each kept seeded change: apply it to /repo, run the property's quick
# check from /verif against /repo itself, undo the change straight afterwards, and record the outcome in
# seeded/<id>/detection.json (plus the minimised replay file the check produced).
# VROOT (default /verif) names the copy of /verif whose checks are run: a frozen snapshot (rsync of a commit) lets
# the detection runs proceed while /verif itself is being edited; results are always recorded under /verif/seeded.
set -u
VROOT="${VROOT:-/verif}"
cd /verif
for id in "$@"; do
  d="seeded/$id"
  prop=$(python3 -c "import json;print(json.load(open('$d/meta.json'))['property'])")
  if [ -n "$(git -C /repo status --porcelain)" ]; then echo "SEEDRUN $id: /repo is not clean, refusing"; exit 2; fi
  before=$(ls "$VROOT/replays" 2>/dev/null | sort)
  git -C /repo apply "/verif/$d/patch.diff" || { echo "SEEDRUN $id: patch does not apply"; continue; }
  start=$(date +%s)
  "$VROOT/bin/check" "$prop" --tier quick > "$d/check_output.txt" 2>&1
  rc=$?
  end=$(date +%s)
  git -C /repo checkout -- . ; git -C /repo clean -fdq
  new=$(comm -13 <(echo "$before") <(ls "$VROOT/replays" | sort))
  first=""
  for f in $new; do [ -z "$first" ] && first="$f" && cp "$VROOT/replays/$f" "$d/replay.json"; rm -f "$VROOT/replays/$f"; done
  cls=$(grep -m1 '  class:' "$d/check_output.txt" | sed 's/^ *class: //' | cut -c1-160)
  nv=$(grep -c '^VIOLATION' "$d/check_output.txt")
  python3 - "$d" "$rc" "$nv" "$((end-start))" "$cls" <<'P'
import json,sys,subprocess
d,rc,nv,secs,cls=sys.argv[1:6]
tree=subprocess.run('git -C /repo rev-parse --short HEAD',shell=True,capture_output=True,text=True).stdout.strip()
json.dump({"command":"git -C /repo apply patch.diff && bin/check <prop> --tier quick ; git -C /repo checkout -- .","exit":int(rc),"violation_lines":int(nv),"seconds":int(secs),"first_violation_class":cls,"base_tree":tree,"detected":int(rc)==1 and int(nv)>0},open(d+'/detection.json','w'),indent=1)
P
  # keep the output small
  head -c 20000 "$d/check_output.txt" > "$d/check_output.tmp"; mv "$d/check_output.tmp" "$d/check_output.txt"
  echo "SEEDRUN $id: exit=$rc violations=$nv time=$((end-start))s $cls"
done
