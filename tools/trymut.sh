#!/bin/bash
# tools/trymut.sh <patch.diff> <C12|C17> [seconds]  — apply a deliberate change to a scratch worktree of /repo
# (never to /repo itself), run the quick check against it with evidence/replays redirected to a scratch copy of
# /verif, print the verdict line, clean up.
set -u
patch="$1"; prop="$2"; secs="${3:-45}"
name="$(basename "$patch" .diff)-$$"
wt="/var/tmp/mutwt-$name"; vd="/var/tmp/mutvd-$name"
git -C /repo worktree add -q --detach "$wt" HEAD || exit 2
if ! git -C "$wt" apply "$patch"; then echo "RESULT $(basename $patch) $prop: PATCH DOES NOT APPLY"; git -C /repo worktree remove --force "$wt"; exit 2; fi
mkdir -p "$vd"; rsync -a --exclude .git --exclude .build --exclude replays --exclude evidence /verif/ "$vd"/
start=$(date +%s)
VERIF_REPO="$wt" "$vd/bin/check" "$prop" --tier quick --seconds "$secs" > "$vd/out.log" 2>&1
rc=$?
end=$(date +%s)
v=$(grep -c '^VIOLATION' "$vd/out.log")
cls=$(grep -m1 '  class:' "$vd/out.log" | sed 's/^ *//')
echo "RESULT $(basename $patch) $prop: exit=$rc violations=$v time=$((end-start))s $cls"
mkdir -p /var/tmp/mutlogs; cp "$vd/out.log" "/var/tmp/mutlogs/$(basename $patch .diff)-$prop.log"
git -C /repo worktree remove --force "$wt"; rm -rf "$vd"
exit 0
